#![no_main]
// bytes -> exact-family operand pair -> stage oracles C13, C14, C15
use libfuzzer_sys::fuzz_target;
fuzz_target!(|data: &[u8]| {
    if let Some(d) = vh::fuzzdec::decode_case(data) {
        if let Err((id, f)) = vh::fuzzdec::stage_oracle(&d) {
            panic!("VERIF-FUZZ-VIOLATION property={} clause={} detail={} descriptor={:?}", id, f.clause, f.detail, d);
        }
    }
});
