#![no_main]
// bytes -> splay operation history -> BTreeMap model comparison (property C17), ASan on
use libfuzzer_sys::fuzz_target;
fuzz_target!(|data: &[u8]| {
    if let Some(h) = vh::fuzzdec::decode_history(data) {
        let e = vh::props::splay::eval_history(&h, false);
        if let Err(f) = e.result {
            panic!("VERIF-FUZZ-VIOLATION property=C17 clause={} detail={} history={}", f.clause, f.detail, vh::props::splay::history_to_text(&h));
        }
    }
});
