#![no_main]
// bytes -> segment pair -> effects of possible_intersection against the exact classification (property C16)
use libfuzzer_sys::fuzz_target;
fuzz_target!(|data: &[u8]| {
    if let Some(d) = vh::fuzzdec::decode_segpair(data) {
        let e = vh::props::segpair::eval_pair(&d, false);
        if let Err(f) = e.result {
            panic!("VERIF-FUZZ-VIOLATION property=C16 clause={} detail={} pair={}", f.clause, f.detail, vh::props::segpair::pair_to_json(&d));
        }
    }
});
