#![no_main]
// bytes -> exact-family operand pair -> oracles of C01, C02, C04, C05 and one of C06-C09
use libfuzzer_sys::fuzz_target;
fuzz_target!(|data: &[u8]| {
    if let Some(d) = vh::fuzzdec::decode_case(data) {
        if let Err((id, f)) = vh::fuzzdec::bool_oracle(&d) {
            panic!("VERIF-FUZZ-VIOLATION property={} clause={} detail={} descriptor={:?}", id, f.clause, f.detail, d);
        }
    }
});
