#!/bin/bash
# usage: tools/recheck_seed.sh <outdir-with-patch.diff-and-validation.json> [checks...]
# re-runs only the second half of validate_seed.sh (quick checks against /repo with the patch applied) and updates validation.json
OUT="$1"; shift
cd /verif
CHECKS="$@"; [ -z "$CHECKS" ] && CHECKS="C01 C02 C03 C04 C05 C06 C07 C08 C09 C10 C11 C12 C13 C14 C15 C16 C17 C18"
res=$(tools/with_mutant.sh "$OUT/patch.diff" $CHECKS 2>&1)
caught=$(echo "$res" | grep -E "^== C[0-9]+ exit=1" | sed -E 's/^== (C[0-9]+).*/\1/' | tr '\n' ' ')
incon=$(echo "$res" | grep -E "^== C[0-9]+ exit=2" | sed -E 's/^== (C[0-9]+).*/\1/' | tr '\n' ' ')
echo "$OUT: caught by: $caught ${incon:+(inconclusive: $incon)}"
python3 - "$OUT" "$caught" "$CHECKS" <<'PY'
import json,sys
out,caught,checks=sys.argv[1:4]
p=out+'/validation.json'
v=json.load(open(p))
v['quick_checks_run']=checks.split(); v['quick_checks_reporting_violation']=caught.split()
json.dump(v,open(p,'w'),indent=1)
PY
