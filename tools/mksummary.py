#!/usr/bin/env python3
"""Prints a markdown table of what the last runs of the checks covered, from /verif/evidence/*.json."""
import json, glob
print('| check | tier | cases evaluated | distinct non-trivial | wall s | families / plans (evaluated) |')
print('|---|---|---|---|---|---|')
for f in sorted(glob.glob('/verif/evidence/C*.json')):
    e = json.load(open(f)); c = e['coverage']
    fam = ', '.join(f"{k} {v['evaluations']}" for k, v in sorted(c.get('per_family', {}).items()))
    ex = '; '.join(f"{p['space']}: {p.get('evaluated', p.get('size'))}" for p in c.get('exhaustive_parts', []))
    if ex: fam += ' | exhaustive: ' + ex
    print(f"| {e['property_id']} | {e['tier']} | {c['evaluations']} | {c['distinct_nontrivial']} | {e['wall_s']:.1f} | {fam} |")
