#!/bin/bash
# usage: tools/validate_seed.sh <PROP> <m1|m2> [checks...]
# 1. confirms in the scratch worktree /tmp/wt/<PROP> that the patch applies, the 45 tests pass, the demo fails with
#    the patch and passes without it; 2. applies the patch to /repo, runs the given quick checks (default: all), reverts.
# Writes /tmp/wt/<PROP>-out/<m>/validation.json
P="$1"; M="$2"; shift 2
BASE=${SEED_BASE:-/tmp/wt}; WT=$BASE/$P; OUT=$BASE/$P-out/$M
[ -f "$OUT/patch.diff" ] || { echo "no patch"; exit 2; }
cd "$WT" || exit 2
git checkout -q -- . ; rm -rf lib/tests
export CARGO_NET_OFFLINE=true
mkdir -p lib/tests; cp "$OUT/demo.rs" lib/tests/seeded_demo.rs
timeout 900 cargo test -p geo-booleanop --test seeded_demo --offline > "$OUT/demo_clean.log" 2>&1; demo_clean=$?
rm -rf lib/tests
git apply "$OUT/patch.diff" || { echo "patch does not apply"; exit 2; }
timeout 1200 cargo test --workspace --no-fail-fast --offline > "$OUT/suite_patched.log" 2>&1; suite=$?
passed=$(grep -E "^test result" "$OUT/suite_patched.log" | awk '{s+=$4} END {print s}')
mkdir -p lib/tests; cp "$OUT/demo.rs" lib/tests/seeded_demo.rs
timeout 900 cargo test -p geo-booleanop --test seeded_demo --offline > "$OUT/demo_patched.log" 2>&1; demo_patched=$?
rm -rf lib/tests; git checkout -q -- .
echo "$P/$M: suite exit=$suite passed=$passed ; demo clean exit=$demo_clean ; demo patched exit=$demo_patched"
# 2. checks against /repo
cd /verif
CHECKS="$@"; [ -z "$CHECKS" ] && CHECKS="C01 C02 C03 C04 C05 C06 C07 C08 C09 C10 C11 C12 C13 C14 C15 C16 C17 C18"
res=$(tools/with_mutant.sh "$OUT/patch.diff" $CHECKS 2>&1)
echo "$res" | grep -E "^==" | sed 's/replay=[^ ]*//g' | cut -c1-110
caught=$(echo "$res" | grep -E "^== C[0-9]+ exit=1" | sed -E 's/^== (C[0-9]+).*/\1/' | tr '\n' ' ')
python3 - "$P" "$M" "$suite" "$passed" "$demo_clean" "$demo_patched" "$caught" "$CHECKS" "$OUT" <<'PY'
import json,sys
P,M,suite,passed,dc,dp,caught,checks=sys.argv[1:9]
json.dump({"property":P,"mutant":M,"suite_exit_with_patch":int(suite),"tests_passed_with_patch":int(passed or 0),"demo_exit_clean":int(dc),"demo_exit_patched":int(dp),"quick_checks_run":checks.split(),"quick_checks_reporting_violation":caught.split()},open(sys.argv[9]+"/validation.json","w"),indent=1)
PY
