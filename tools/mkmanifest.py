#!/usr/bin/env python3
"""Regenerates /verif/MANIFEST.json from the table below (run from /verif)."""
import json, subprocess

IMPLEMENTED = json.load(open('tools/implemented.json'))

LEVEL_TEXT = {
 'C01': "Randomised and small-exhaustive search over the robust input families against an exact point-membership oracle (one witness per face of the input arrangement). Finds wrong regions for any of the 4 operations and 4 trait pairings on the generated cases; establishes nothing beyond them.",
 'C02': "Same generated cases as C01, judged by a purely structural oracle on the result's own arrangement (nesting, disjointness, no doubled boundary piece, polygon-wise == even-odd).",
 'C03': "Generated valid operands (robust families, degenerate edge cases, large parametric inputs in child processes, adversarial lattice inputs with the recorded K1/K2 signatures tolerated) in a release build and a build with debug assertions and overflow checks; a guarded event counter turns runaway sweeps into deterministic failures and checks the quadratic bound.",
 'C04': "Every result ring/edge/vertex of the generated cases is traced back to the input edges (exactly on exact families, within the stated tolerance otherwise).",
 'C05': "The five results of one operand pair are compared with each other at every witness of the input arrangement and through the three area identities; no operand oracle is involved.",
 'C06': "Metamorphic search: operand swap, self-operations, empty operands, disjoint and touching bounding boxes, compared as ring multisets where the statement claims rings and as regions otherwise.",
 'C07': "Metamorphic search over representation changes (ring start, direction, part/hole order, repeated vertices) and all four trait implementations.",
 'C08': "Metamorphic search over power-of-two scalings (bit-identical), integer translations of exact inputs (bit-identical) and the 7 non-identity axis symmetries (region).",
 'C09': "Metamorphic search: a far-away extra part on either operand in each of four directions, and forced switches between the bounding-box shortcut and the sweep path.",
 'C10': "The oracles of C01, C02, C04, C05 and one of C06-C09 re-run with the operation executed in f32, coordinate-for-coordinate agreement of f32 and f64 results on inputs representable in both, and the oracles of C16 (pairwise step) and C15 (orderings) instantiated at f32 on exact integer pairs, float pairs and nearly degenerate mixed-magnitude pairs.",
 'C11': "Triples of exact operands: all 16 operation pairs, both nesting sides, third operand independent or re-used, judged by the point-membership oracle on the joint arrangement; every intermediate result must pass the operand validity check.",
 'C12': "Generated call histories (pool of operands, repeated and re-ordered calls, fresh threads, the same call in f32 first, 8 concurrent threads) checked for bit-identical operands before/after and bit-identical results; the first cases of the process are recomputed at the very end of the run; thread schedules are sampled, not controlled.",
 'C13': "The public fill_queue/subdivide stages are run on generated operands and the resulting sub-segments are checked pairwise with exact predicates (links, order, planarity, coverage against an integer reference on exact families).",
 'C14': "Every processed sub-segment's flags are compared with exact point membership of side points in the input operands (in/out, other in/out, in-result, transition, twins, prev-in-result).",
 'C15': "All pairs and triples of the events of generated inputs (before and after subdivision), generated event stars, class-drawn integer segment pairs and nearly degenerate float segment pairs (incl. negative zero) are checked for strict-total-order laws and against a reference order built from exact orientation tests.",
 'C16': "All segment pairs on the 4x4 lattice (exhaustive), class-directed integer pairs below 2^25 and float pairs are passed to the public possible_intersection and judged on effects (pieces, split points, typing, links) against an exact classification and an i128 rational reference.",
 'C17': "Exhaustive breadth-first exploration of every splay tree reachable over a small key universe plus long random operation histories (run a second time with tagged keys that compare equal), compared step by step with std BTreeMap; reference stability checked by address and value; thorough tier adds a libFuzzer campaign (ASan).",
 'C18': "Generated scenarios (insertion order x size up to 3e6 keys x fold lookup x teardown/consumption action x 8 MiB / 2 MiB stack) and large Boolean operations with an early-stopped, heavily populated sweep line, each in a child process; stack exhaustion shows up as an abort of the child.",
}
TECH = {
 'C01': "property-based testing (proptest TestRunner, structured shrinking) + exhaustive small-grid enumeration against an exact even-odd membership oracle",
 'C02': "property-based testing + exhaustive small-grid enumeration against a structural validity oracle",
 'C03': "property-based testing and scenario generation with panic capture, event-budget hook, child processes",
 'C04': "property-based testing against an exact provenance oracle (edges/vertices traced to inputs)",
 'C05': "property-based testing, differential between the four operations (pointwise partition and area identities)",
 'C06': "metamorphic property-based testing (swap/self/empty/disjoint/touching laws)",
 'C07': "metamorphic property-based testing (representation changes, trait pairings)",
 'C08': "metamorphic property-based testing (scalings, translations, axis symmetries)",
 'C09': "metamorphic property-based testing (far-away parts, shortcut vs sweep)",
 'C10': "differential property-based testing f32 vs f64 plus the f32 instantiation of the other oracles",
 'C11': "property-based testing of chained operations against a membership oracle on the joint arrangement",
 'C12': "history-based property testing (generated call sequences, threads) with memoised reference results",
 'C13': "property-based testing of the public sweep stages with exact pairwise predicates and an integer reference subdivision",
 'C14': "property-based testing of per-segment sweep flags against exact side-point membership",
 'C15': "property-based testing of ordering laws (totality, antisymmetry, transitivity, reference order)",
 'C16': "exhaustive lattice enumeration + class-directed property-based testing against exact segment classification",
 'C17': "model-based testing: exhaustive small-universe state exploration + random histories against BTreeMap",
 'C18': "scenario generation in child processes (stack-exhaustion detection)",
}
NOTE = "Exploration only: absence of violations is shown for the generated cases, not for all inputs. Trusted base: robust::orient2d, the harness' boundary tracer and witness construction (self-checked on every case), rustc/proptest. Inputs restricted to the robust domains of DESIGN.md §3 (recorded findings K1-K4/N2 excluded by construction and replayed from corpus/known)."

checks = []
for pid in sorted(LEVEL_TEXT):
    if pid not in IMPLEMENTED:
        continue
    checks.append({
        "property_id": pid,
        "quick_cmd": f"./check {pid} quick",
        "thorough_cmd": f"./check {pid} thorough",
        "evidence_file": f"/verif/evidence/{pid}.json",
        "replay_cmd_template": "./check replay {path}",
        "engine": "harness",
        "level_claimed": {"category": "exploration", "text": LEVEL_TEXT[pid], "design_ref": f"DESIGN.md §5 {pid}"},
        "level_note": NOTE,
        "technique": TECH[pid],
    })
hook_commits = subprocess.run(['git','-C','/repo','log','--format=%H %s'],capture_output=True,text=True).stdout.strip().split('\n')
hooks = [l.split()[0] for l in hook_commits if 'verif hooks' in l]
manifest = {
 "version": 1,
 "setup_cmd": "./check build",
 "hooks": {
   "guard": "cargo feature `verif-hooks` of the geo-booleanop crate (lib/Cargo.toml), off by default",
   "enable": "the harness depends on geo-booleanop = { path = \"/repo/lib\", features = [\"verif-hooks\"] }; every ./check invocation runs cargo build first, so /repo's working tree is recompiled with the feature on",
   "baseline_off_cmd": "cd /repo && cargo test --workspace --no-fail-fast --offline",
   "source_commits": hooks,
   "add_only": True,
 },
 "engines": [
   {"name": "harness", "path": "/verif/harness", "serves_properties": sorted(IMPLEMENTED), "kind_free_text": "Rust crate: proptest 1.11 driven through TestRunner from a binary (fixed seeds from VERIF_SEED, 16 worker threads, shrinking to replay files), exhaustive enumerators, exact geometric oracles"},
   {"name": "fuzz", "path": "/verif/fuzz", "serves_properties": ["C01","C02","C04","C05","C06","C07","C08","C09","C13","C14","C15","C16","C17"], "kind_free_text": "cargo-fuzz / libFuzzer targets fz_bool, fz_stage, fz_segpair, fz_splay (ASan; bytes decoded with arbitrary::Unstructured into the harness descriptors, oracle inside the target); run by the thorough tiers"},
 ],
 "checks": checks,
 "notes": "See DESIGN.md. Exit codes: 0 held, 1 VIOLATION (replay file written under /verif/replays), 2 inconclusive. Known findings: /verif/known_findings.json.",
 "not_applicable": [{"property_id": p, "reason": "check not built yet in this snapshot of /verif (work in progress; the technique applies, see DESIGN.md §5)"} for p in sorted(LEVEL_TEXT) if p not in IMPLEMENTED],
}
json.dump(manifest, open('MANIFEST.json','w'), indent=1)
print("checks:", [c['property_id'] for c in checks])
