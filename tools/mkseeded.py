#!/usr/bin/env python3
"""Copies the confirmed seeded changes from the scratch areas into /verif/seeded/ and writes seeded/README.md.
Usage: tools/mkseeded.py /tmp/wt:r1 /tmp/wt2:r2 ..."""
import json, os, shutil, sys, glob

rows = []
for arg in sys.argv[1:]:
    base, rnd = arg.split(':')
    for d in sorted(glob.glob(f'{base}/C??-out/m?')):
        prop = os.path.basename(os.path.dirname(d))[:3]
        m = os.path.basename(d)
        val = os.path.join(d, 'validation.json')
        if not (os.path.exists(val) and os.path.exists(os.path.join(d, 'patch.diff'))):
            continue
        v = json.load(open(val))
        confirmed = v['suite_exit_with_patch'] == 0 and v['tests_passed_with_patch'] == 45 and v['demo_exit_clean'] == 0 and v['demo_exit_patched'] != 0
        if not confirmed:
            print('NOT CONFIRMED, skipped:', d, v)
            continue
        name = f'{prop}-{rnd}{m}'
        out = f'/verif/seeded/{name}'
        os.makedirs(out, exist_ok=True)
        shutil.copy(os.path.join(d, 'patch.diff'), out)
        shutil.copy(os.path.join(d, 'demo.rs'), out)
        try:
            meta = json.load(open(os.path.join(d, 'meta.json')))
        except Exception as e:
            meta = {'property': prop, 'summary': '(meta.json of the sub-agent did not parse)', 'needs': ''}
        meta['property'] = prop
        meta['what_was_run'] = {
            'in_scratch_worktree': 'git apply patch.diff; cargo test --workspace --no-fail-fast --offline (45/45 pass with the patch); demo.rs copied to lib/tests/seeded_demo.rs and run with cargo test -p geo-booleanop --test seeded_demo --offline: fails with the patch, passes without it',
            'against_/repo': 'tools/with_mutant.sh: git -C /repo apply patch.diff; ./check <ID> quick for all 18 properties; git -C /repo checkout -- .',
            'quick_checks_reporting_violation': v['quick_checks_reporting_violation'],
            'caught_by_own_property_check': prop in v['quick_checks_reporting_violation'],
        }
        json.dump(meta, open(os.path.join(out, 'meta.json'), 'w'), indent=1)
        json.dump(v, open(os.path.join(out, 'validation.json'), 'w'), indent=1)
        rows.append((name, prop, meta.get('summary', ''), meta.get('needs', ''), v['quick_checks_reporting_violation']))

with open('/verif/seeded/README.md', 'w') as f:
    f.write('# Seeded changes\n\nEach directory holds `patch.diff` (applies to /repo with `git apply`), `demo.rs` (the sub-agent\'s demonstration, an integration test for `lib/tests/`), `meta.json` (what was changed, what it needs to manifest, what was run) and `validation.json` (raw results of `tools/validate_seed.sh`). None of these changes is ever committed to /repo.\n\n')
    f.write('| id | breaks | change | caught by its own check (quick) | all quick checks that report a violation |\n|---|---|---|---|---|\n')
    for name, prop, summ, needs, caught in rows:
        s = ' '.join(str(summ).split())
        if len(s) > 220: s = s[:217] + '...'
        f.write(f'| {name} | {prop} | {s} | {"yes" if prop in caught else "**no**"} | {" ".join(caught) if caught else "none"} |\n')
    n = len(rows); own = sum(1 for r in rows if r[1] in r[4]); anyc = sum(1 for r in rows if r[4])
    f.write(f'\n{n} confirmed changes; {own} caught by the quick check of the property they were written against; {anyc} caught by at least one quick check.\n')
print(len(rows), 'seeded changes written')
