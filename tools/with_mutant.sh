#!/bin/bash
# usage: tools/with_mutant.sh <patch.diff> <ID> [<ID>...]   — applies the patch to /repo, runs the quick checks, reverts.
# For sensitivity testing only; never leaves /repo modified.
patch="$1"; shift
cd /verif || exit 2
if ! git -C /repo diff --quiet; then echo "/repo has uncommitted changes; refusing"; exit 2; fi
git -C /repo apply "$patch" || { echo "patch does not apply"; exit 2; }
trap 'git -C /repo checkout -- . ; git -C /repo clean -fdq lib tests 2>/dev/null' EXIT
for id in "$@"; do
  out=$(./check "$id" quick 2>&1); code=$?
  echo "== $id exit=$code: $(echo "$out" | grep -E '^(VIOLATION|OK|INCONCLUSIVE|KNOWN)' | head -2 | tr '\n' ' ')"
  echo "$out" | grep -E '^  clause' | head -1
done
