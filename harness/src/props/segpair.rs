//! C16: the public pairwise intersection step, judged on its effects against an exact classification.
use crate::geom::*;
use crate::runner::{Eval, Failure, Obs};
use geo_booleanop::boolean::possible_intersection::possible_intersection;
use geo_booleanop::boolean::sweep_event::{EdgeType, SweepEvent};
use geo_booleanop::boolean::Float;
use geo_types::Coord;
use proptest::prelude::*;
use serde_json::{json, Value};
use std::collections::BinaryHeap;
use std::rc::{Rc, Weak};

#[derive(Clone, Debug, PartialEq)]
pub struct SegPair {
    /// endpoints of segment 1 and 2 (any order)
    pub s1: ((f64, f64), (f64, f64)),
    pub s2: ((f64, f64), (f64, f64)),
    pub subj: (bool, bool),
    pub in_out: (bool, bool),
    /// run in single precision (coordinates must then be f32 values)
    pub f32: bool,
    /// integer family (all clauses) or float family (containment / common point / links only)
    pub integer: bool,
}

#[derive(Clone, Copy, Debug, PartialEq, Eq)]
pub enum Class {
    Disjoint,
    Endpoint,
    Cross,
    T,
    OverlapSame,
    Overlap,
}

impl Class {
    pub fn name(self) -> &'static str {
        match self {
            Class::Disjoint => "disjoint",
            Class::Endpoint => "common-endpoint-only",
            Class::Cross => "proper-crossing",
            Class::T => "T-contact",
            Class::OverlapSame => "collinear-overlap-same-operand",
            Class::Overlap => "collinear-overlap-different-operands",
        }
    }
}

fn sort_seg(s: ((f64, f64), (f64, f64))) -> Seg {
    let (a, b) = (pt(s.0 .0, s.0 .1), pt(s.1 .0, s.1 .1));
    if (a.x, a.y) < (b.x, b.y) {
        (a, b)
    } else {
        (b, a)
    }
}

/// exact classification and the expected split points of each segment (for every class but Cross)
pub fn classify(s1: Seg, s2: Seg, same_operand: bool) -> (Class, Vec<P>, Vec<P>) {
    let (w1, w2) = (orient(s1.0, s1.1, s2.0), orient(s1.0, s1.1, s2.1));
    let (mut e1, mut e2) = (vec![], vec![]);
    if w1 == 0.0 && w2 == 0.0 {
        let key = |p: P| if s1.0.x != s1.1.x { p.x } else { p.y };
        let (lo, hi) = (key(s1.0).max(key(s2.0)), key(s1.1).min(key(s2.1)));
        if lo > hi {
            return (Class::Disjoint, e1, e2);
        }
        if lo == hi {
            return (Class::Endpoint, e1, e2);
        }
        if same_operand {
            return (Class::OverlapSame, e1, e2);
        }
        for p in [s2.0, s2.1] {
            if strictly_inside(s1, p) {
                e1.push(p);
            }
        }
        for p in [s1.0, s1.1] {
            if strictly_inside(s2, p) {
                e2.push(p);
            }
        }
        return (Class::Overlap, e1, e2);
    }
    if proper_cross(s1, s2) {
        return (Class::Cross, e1, e2);
    }
    for p in [s2.0, s2.1] {
        if strictly_inside(s1, p) {
            e1.push(p);
        }
    }
    for p in [s1.0, s1.1] {
        if strictly_inside(s2, p) {
            e2.push(p);
        }
    }
    if !e1.is_empty() || !e2.is_empty() {
        return (Class::T, e1, e2);
    }
    if s1.0 == s2.0 || s1.0 == s2.1 || s1.1 == s2.0 || s1.1 == s2.1 {
        return (Class::Endpoint, e1, e2);
    }
    (Class::Disjoint, e1, e2)
}

pub struct PairOutcome {
    pub ret: u8,
    /// pieces of segment 1 and 2 after the call, as (left point, right point), sorted
    pub pieces: [Vec<Seg>; 2],
    pub queue_len: usize,
    pub links_unchanged: bool,
    pub flags_ok: Result<(), String>,
    pub types: (EdgeType, EdgeType),
}

fn c64<F: Float>(c: Coord<F>) -> P {
    pt(c.x.into(), c.y.into())
}

/// build the two left events as the sweep does, call possible_intersection(se1, se2), and collect the effects
pub fn run_pair<F: Float>(s1: (Coord<F>, Coord<F>), s2: (Coord<F>, Coord<F>), subj: (bool, bool), in_out: (bool, bool)) -> PairOutcome {
    let mk = |s: (Coord<F>, Coord<F>), subj: bool, id: u32| -> (Rc<SweepEvent<F>>, Rc<SweepEvent<F>>) {
        let other = SweepEvent::new_rc(id, s.1, false, Weak::new(), subj, true);
        let ev = SweepEvent::new_rc(id, s.0, true, Rc::downgrade(&other), subj, true);
        other.set_other_event(&ev);
        (ev, other)
    };
    let (e1, o1) = mk(s1, subj.0, 1);
    let (e2, o2) = mk(s2, subj.1, 2);
    e1.set_in_out(in_out.0, false);
    e2.set_in_out(in_out.1, false);
    let mut q = BinaryHeap::new();
    let ret = possible_intersection(&e1, &e2, &mut q);
    let evs: Vec<Rc<SweepEvent<F>>> = q.into_vec();
    let links_unchanged = e1.get_other_event().map(|o| Rc::ptr_eq(&o, &o1)).unwrap_or(false)
        && e2.get_other_event().map(|o| Rc::ptr_eq(&o, &o2)).unwrap_or(false)
        && o1.get_other_event().map(|o| Rc::ptr_eq(&o, &e1)).unwrap_or(false)
        && o2.get_other_event().map(|o| Rc::ptr_eq(&o, &e2)).unwrap_or(false)
        && e1.is_left()
        && e2.is_left()
        && !o1.is_left()
        && !o2.is_left();
    let mut pieces: [Vec<Seg>; 2] = [vec![], vec![]];
    let mut flags_ok = Ok(());
    let all: Vec<&Rc<SweepEvent<F>>> = evs.iter().chain([&e1, &e2, &o1, &o2]).collect();
    for l in &all {
        let o = match l.get_other_event() {
            Some(o) => o,
            None => {
                flags_ok = Err("an event lost its partner".to_string());
                continue;
            }
        };
        match o.get_other_event() {
            Some(back) if Rc::ptr_eq(&back, l) => {}
            _ => flags_ok = Err(format!("event at {:?} is not linked back by its partner", c64(l.point))),
        }
        if l.is_left() == o.is_left() {
            flags_ok = Err(format!("linked pair {:?}-{:?} does not have exactly one left flag", c64(l.point), c64(o.point)));
        }
        if l.is_left() {
            if !l.is_before(&o) {
                flags_ok = Err(format!("left event {:?} does not precede its right event {:?}", c64(l.point), c64(o.point)));
            }
            pieces[(l.contour_id - 1) as usize].push((c64(l.point), c64(o.point)));
        }
    }
    for p in pieces.iter_mut() {
        p.sort_by(|a, b| (a.0.x, a.0.y, a.1.x, a.1.y).partial_cmp(&(b.0.x, b.0.y, b.1.x, b.1.y)).unwrap());
    }
    PairOutcome { ret, pieces, queue_len: evs.len(), links_unchanged, flags_ok, types: (e1.get_edge_type(), e2.get_edge_type()) }
}

fn split_points(pieces: &[Seg], s: Seg) -> Vec<P> {
    let mut v: Vec<P> = pieces.iter().flat_map(|&(a, b)| [a, b]).filter(|&p| p != s.0 && p != s.1).collect();
    v.sort_by(|a, b| (a.x, a.y).partial_cmp(&(b.x, b.y)).unwrap());
    v.dedup();
    v
}

fn ulp(x: f64) -> f64 {
    let x = x.abs().max(f64::MIN_POSITIVE);
    f64::from_bits(x.to_bits() + 1) - x
}

fn ulp32(x: f64) -> f64 {
    let x = (x.abs() as f32).max(f32::MIN_POSITIVE);
    (f32::from_bits(x.to_bits() + 1) - x) as f64
}

/// pieces chain from the left to the right endpoint of the segment without gap or overlap
fn chains(pieces: &[Seg], s: Seg) -> bool {
    if pieces.is_empty() {
        return false;
    }
    // vertical original: pieces sorted by (x,y) of their left point is the chain order as well
    let mut cur = s.0;
    let mut used = vec![false; pieces.len()];
    for _ in 0..pieces.len() {
        match (0..pieces.len()).find(|&i| !used[i] && pieces[i].0 == cur) {
            Some(i) => {
                used[i] = true;
                cur = pieces[i].1;
            }
            None => match (0..pieces.len()).find(|&i| !used[i] && pieces[i].1 == cur) {
                // a piece stored right-to-left because divide_segment swapped the roles (corner case 2)
                Some(i) => {
                    used[i] = true;
                    cur = pieces[i].0;
                }
                None => return false,
            },
        }
    }
    cur == s.1
}

#[derive(Default)]
pub struct PairStats {
    pub n2_hits: u64,
}

fn next_up64(x: f64) -> f64 {
    if x == 0.0 {
        return f64::from_bits(1);
    }
    let b = x.to_bits();
    f64::from_bits(if x > 0.0 { b + 1 } else { b - 1 })
}

fn next_up32(x: f64) -> f64 {
    let x = x as f32;
    if x == 0.0 {
        return f32::from_bits(1) as f64;
    }
    let b = x.to_bits();
    f32::from_bits(if x > 0.0 { b + 1 } else { b - 1 }) as f64
}

/// if p has the shape of a division point moved by divide_segment's corner case 1 on segment `seg` (x one ulp right of the
/// segment's left x, y below the left endpoint) return the point before the move
fn unbump(p: P, seg: Seg, f32mode: bool) -> Option<P> {
    let up = if f32mode { next_up32(seg.0.x) } else { next_up64(seg.0.x) };
    if p.x == up && p.y < seg.0.y {
        Some(pt(seg.0.x, p.y))
    } else {
        None
    }
}

/// the N2 shape: the two split points have equal y and x one ulp apart, and the smaller x is the x of the left
/// endpoint of the segment whose point was bumped, with y below that left endpoint
fn n2_shape(p_small: P, p_big: P, bumped_seg: Seg, f32mode: bool) -> bool {
    unbump(p_big, bumped_seg, f32mode) == Some(p_small)
}

pub fn check_pair(d: &SegPair, obs: &mut Obs) -> Result<(), Failure> {
    let s1 = sort_seg(d.s1);
    let s2 = sort_seg(d.s2);
    if s1.0 == s1.1 || s2.0 == s2.1 {
        return Ok(());
    }
    let run = |a: Seg, b: Seg, subj: (bool, bool), io: (bool, bool)| -> PairOutcome {
        if d.f32 {
            let c = |p: P| Coord { x: p.x as f32, y: p.y as f32 };
            run_pair::<f32>((c(a.0), c(a.1)), (c(b.0), c(b.1)), subj, io)
        } else {
            run_pair::<f64>((a.0, a.1), (b.0, b.1), subj, io)
        }
    };
    let (class, exp1, exp2) = classify(s1, s2, d.subj.0 == d.subj.1);
    obs.class(class.name());
    if s1.0.x == s1.1.x || s2.0.x == s2.1.x {
        obs.class("with-vertical-segment");
    }
    obs.nontrivial = class != Class::Disjoint;
    let mag = [s1.0, s1.1, s2.0, s2.1].iter().fold(0.0f64, |m, p| m.max(p.x.abs()).max(p.y.abs()));
    let u = if d.f32 { ulp32(mag) } else { ulp(mag) };
    let fwd = run(s1, s2, d.subj, d.in_out);
    let rev = run(s2, s1, (d.subj.1, d.subj.0), (d.in_out.1, d.in_out.0));
    let describe = |o: &PairOutcome| format!("returned {}, pieces of segment 1 {:?}, pieces of segment 2 {:?}, {} events pushed, types {:?}", o.ret, o.pieces[0], o.pieces[1], o.queue_len, o.types);
    let ctx = format!("segments {:?} / {:?} operands {:?} in_out {:?} ({}{})", s1, s2, d.subj, d.in_out, if d.integer { "integer" } else { "float" }, if d.f32 { ", f32" } else { "" });
    let fail = |clause: &str, why: String, o: &PairOutcome| Failure::new(clause, format!("{}: {}; {}", ctx, why, describe(o)));
    for (dir, o, (sa, sb), (ea, eb)) in [("(se1,se2)", &fwd, (s1, s2), (&exp1, &exp2)), ("(se2,se1)", &rev, (s2, s1), (&exp2, &exp1))] {
        if !d.integer && o.ret >= 2 && class != Class::Overlap {
            // recorded finding N3: the float computation takes segments that are collinear only within rounding for
            // collinear ones; the overlap arm then cuts at points that need not lie on the segments (zero-length
            // pieces are possible). Counted, not reported; any anomaly of the point arm (return 1) is still reported.
            obs.count("known_signature_hits_N3", 1);
            obs.class("N3-overlap-arm-on-non-collinear-floats");
            continue;
        }
        if !d.integer {
            // N2 on a segment that is exactly one ulp wide: the division point, moved one ulp to the right, lands on the
            // segment's own right endpoint and leaves a zero-length piece
            let degenerate = |pieces: &Vec<Seg>, own: Seg| pieces.iter().any(|pc| pc.0 == pc.1 && pc.0 == own.1 && unbump(pc.0, own, d.f32).is_some());
            if degenerate(&o.pieces[0], sa) || degenerate(&o.pieces[1], sb) {
                obs.count("known_signature_hits_N2", 1);
                obs.class("N2-corner-case-1-bump");
                continue;
            }
        }
        if let Err(why) = &o.flags_ok {
            return Err(fail("links-and-flags", format!("{} {}", dir, why), o));
        }
        if !chains(&o.pieces[0], sa) || !chains(&o.pieces[1], sb) {
            return Err(fail("pieces-do-not-chain", format!("{} the pieces of a segment do not chain from its left to its right endpoint", dir), o));
        }
        let (g1, g2) = (split_points(&o.pieces[0], sa), split_points(&o.pieces[1], sb));
        // containment: every split point inside the bounding boxes of both segments
        for (p, own) in g1.iter().map(|p| (p, sa)).chain(g2.iter().map(|p| (p, sb))) {
            if o.ret >= 2 {
                // overlap arm (taken by the float computation also for segments that are collinear only within rounding):
                // the cut points are the other segment's endpoints, bit for bit
                let other = if own == sa { sb } else { sa };
                if *p != other.0 && *p != other.1 {
                    return Err(fail("overlap-cut-points", format!("{} cut point ({},{}) of the overlap arm is not an endpoint of the other segment", dir, p.x, p.y), o));
                }
                continue;
            }
            let mut ok = in_box(sa, *p) && in_box(sb, *p);
            if !ok {
                // N2: corner case 1 moved this division point one ulp to the right, possibly out of the other's box
                if let Some(q) = unbump(*p, own, d.f32) {
                    if in_box(sa, q) && in_box(sb, q) {
                        ok = true;
                        obs.count("known_signature_hits_N2", 1);
                        obs.class("N2-corner-case-1-bump");
                    }
                }
            }
            if !ok {
                return Err(fail("split-point-outside-bounding-box", format!("{} split point ({},{})", dir, p.x, p.y), o));
            }
        }
        if !d.integer {
            // float family: containment, common point, links
            // (the float computation may legitimately take near-parallel segments for collinear ones: the overlap arm,
            // return codes 2/3, is judged on containment only)
            if o.ret == 1 && g1.len() == 1 && g2.len() == 1 && g1[0] != g2[0] && class != Class::Overlap {
                let (a, b) = (g1[0], g2[0]);
                let n2 = if a.x < b.x { n2_shape(a, b, sb, d.f32) } else { n2_shape(b, a, sa, d.f32) };
                if n2 {
                    obs.count("known_signature_hits_N2", 1);
                    obs.class("N2-corner-case-1-bump");
                } else {
                    return Err(fail("different-split-points", format!("{} the two segments were split at different points ({},{}) and ({},{})", dir, a.x, a.y, b.x, b.y), o));
                }
            }
            continue;
        }
        match class {
            Class::Disjoint => {
                if o.ret != 0 || o.queue_len != 0 || !o.links_unchanged {
                    return Err(fail("disjoint-not-reported", format!("{} the segments are disjoint", dir), o));
                }
            }
            Class::Endpoint => {
                if o.queue_len != 0 || !o.links_unchanged || o.ret > 1 {
                    return Err(fail("endpoint-contact-touched", format!("{} the segments meet only at a common endpoint and must be left untouched", dir), o));
                }
            }
            Class::OverlapSame => {
                if o.ret != 0 || o.queue_len != 0 || !o.links_unchanged {
                    return Err(fail("same-operand-overlap-touched", format!("{} collinear overlapping segments of the same operand must be left untouched", dir), o));
                }
            }
            Class::Cross => {
                if o.ret != 1 || g1.len() != 1 || g2.len() != 1 || o.pieces[0].len() != 2 || o.pieces[1].len() != 2 {
                    return Err(fail("crossing-not-split", format!("{} properly crossing segments must each be split into two pieces", dir), o));
                }
                if g1[0] != g2[0] {
                    let (a, b) = (g1[0], g2[0]);
                    let n2 = if a.x < b.x { n2_shape(a, b, sb, d.f32) } else { n2_shape(b, a, sa, d.f32) };
                    if n2 {
                        obs.count("known_signature_hits_N2", 1);
                        obs.class("N2-corner-case-1-bump");
                    } else {
                        return Err(fail("different-split-points", format!("{} the two segments were split at different points ({},{}) and ({},{})", dir, a.x, a.y, b.x, b.y), o));
                    }
                }
                if let Some((xn, yn, den)) = exact_cross_frac(sa, sb, 1.0) {
                    let (ex, ey) = (xn as f64 / den as f64, yn as f64 / den as f64);
                    for p in [g1[0], g2[0]] {
                        if (p.x - ex).abs() > 10.0 * u || (p.y - ey).abs() > 10.0 * u {
                            return Err(fail("crossing-point-inaccurate", format!("{} split point ({},{}) is more than 8 ulp({}) from the exact crossing ({},{})", dir, p.x, p.y, mag, ex, ey), o));
                        }
                    }
                }
            }
            Class::T => {
                if o.ret != 1 || &g1 != ea || &g2 != eb {
                    return Err(fail("t-contact-split", format!("{} only the touched segment must be split, at the other's endpoint bit-identically (expected split points {:?} / {:?})", dir, ea, eb), o));
                }
            }
            Class::Overlap => {
                let srt = |v: &Vec<P>| {
                    let mut v = v.clone();
                    v.sort_by(|a, b| (a.x, a.y).partial_cmp(&(b.x, b.y)).unwrap());
                    v
                };
                if g1 != srt(ea) || g2 != srt(eb) {
                    return Err(fail("overlap-cut-points", format!("{} overlapping segments of different operands must be cut exactly at the other's endpoints lying strictly inside (expected {:?} / {:?})", dir, ea, eb), o));
                }
                let io = if dir == "(se1,se2)" { d.in_out } else { (d.in_out.1, d.in_out.0) };
                if sa.0 == sb.0 {
                    let want1 = if io.0 == io.1 { EdgeType::SameTransition } else { EdgeType::DifferentTransition };
                    if o.ret != 2 || o.types.1 != EdgeType::NonContributing || o.types.0 != want1 {
                        return Err(fail("overlap-typing", format!("{} common left endpoint: expected return 2, second segment NonContributing, first {:?}", dir, want1), o));
                    }
                } else if o.ret != 3 {
                    return Err(fail("overlap-return-code", format!("{} overlap without common left endpoint must return 3", dir), o));
                } else if o.types != (EdgeType::Normal, EdgeType::Normal) {
                    return Err(fail("overlap-typing", format!("{} no typing is expected before the coincident pieces start at a common left endpoint", dir), o));
                }
            }
        }
    }
    // order independence: the same split points in both argument orders (bitwise except for crossings)
    let (f1, f2) = (split_points(&fwd.pieces[0], s1), split_points(&fwd.pieces[1], s2));
    let (r2, r1) = (split_points(&rev.pieces[0], s2), split_points(&rev.pieces[1], s1));
    if d.integer {
        if class == Class::Cross {
            let close = |a: &Vec<P>, b: &Vec<P>| a.len() == b.len() && a.iter().zip(b.iter()).all(|(p, q)| (p.x - q.x).abs() <= 16.0 * u && (p.y - q.y).abs() <= 16.0 * u);
            if !close(&f1, &r1) || !close(&f2, &r2) {
                return Err(fail("order-dependence", format!("split points differ between the two argument orders: {:?}/{:?} vs {:?}/{:?}", f1, f2, r1, r2), &rev));
            }
        } else if f1 != r1 || f2 != r2 || (fwd.ret == 0) != (rev.ret == 0) {
            return Err(fail("order-dependence", format!("outcome differs between the two argument orders: {:?}/{:?} (ret {}) vs {:?}/{:?} (ret {})", f1, f2, fwd.ret, r1, r2, rev.ret), &rev));
        }
    } else {
        // float: margin clauses. crossing with a clear margin must be found; separation with a clear margin must be respected
        let m = 1e-9 * mag.max(f64::MIN_POSITIVE) * if d.f32 { 1e5 } else { 1.0 };
        let dmin = [dist_point_seg(s1.0, s2), dist_point_seg(s1.1, s2), dist_point_seg(s2.0, s1), dist_point_seg(s2.1, s1)].iter().cloned().fold(f64::INFINITY, f64::min);
        // the margin clauses go beyond what the property states for floats; they are applied only where no square of a
        // cross product of coordinate differences can underflow or overflow in the precision of the run
        let (tiny, huge) = if d.f32 { (f32::MIN_POSITIVE as f64 * 1e12, f32::MAX as f64 * 1e-12) } else { (f64::MIN_POSITIVE * 1e30, f64::MAX * 1e-30) };
        let mut diffs: Vec<f64> = Vec::new();
        let pts = [s1.0, s1.1, s2.0, s2.1];
        for i in 0..4 {
            for j in i + 1..4 {
                for v in [(pts[i].x - pts[j].x).abs(), (pts[i].y - pts[j].y).abs()] {
                    if v > 0.0 {
                        diffs.push(v);
                    }
                }
            }
        }
        let dlo = diffs.iter().cloned().fold(f64::INFINITY, f64::min);
        let dhi = diffs.iter().cloned().fold(0.0f64, f64::max);
        let range_ok = dlo.powi(4) > tiny && dhi.powi(4) < huge && mag.powi(4) < huge;
        if range_ok && dmin > m && abs_sin(s1, s2) > 1e-6 {
            if class == Class::Cross {
                obs.class("float-crossing-with-margin");
                for o in [&fwd, &rev] {
                    if o.ret != 1 || o.pieces[0].len() != 2 || o.pieces[1].len() != 2 {
                        return Err(fail("crossing-not-split", "float segments cross with a clear margin and must each be split in two".to_string(), o));
                    }
                }
            } else if class == Class::Disjoint {
                obs.class("float-disjoint-with-margin");
                for o in [&fwd, &rev] {
                    if o.ret != 0 || o.queue_len != 0 || !o.links_unchanged {
                        return Err(fail("disjoint-not-reported", "float segments are disjoint with a clear margin".to_string(), o));
                    }
                }
            }
        }
    }
    Ok(())
}

pub fn eval_pair(d: &SegPair, want_sample: bool) -> Eval {
    use std::hash::{Hash, Hasher};
    let mut obs = Obs::default();
    let r = crate::exec::guarded(u64::MAX, || check_pair(d, &mut obs));
    let result = match r {
        Ok(r) => r,
        // recorded finding N4 (builds with debug assertions only, float pairs only): divide_segment's
        // `debug_assert!(se_l.is_before(&r))` ("corner case 1 should be impossible") fires for float segments whose
        // rounded division point does not come after the left endpoint
        Err(p) if !d.integer && p.file.ends_with("divide_segment.rs") && p.message.starts_with("assertion failed: se_l.is_before(&r)") => {
            obs.count("known_signature_hits_N4", 1);
            obs.class("N4-debug-assertion-in-divide-segment");
            Ok(())
        }
        Err(p) => Err(Failure::new("panic", format!("possible_intersection panicked at {}:{}: {} on {:?}", p.file, p.line, p.message, d))),
    };
    let mut h = std::collections::hash_map::DefaultHasher::new();
    for v in [d.s1.0 .0, d.s1.0 .1, d.s1.1 .0, d.s1.1 .1, d.s2.0 .0, d.s2.0 .1, d.s2.1 .0, d.s2.1 .1] {
        v.to_bits().hash(&mut h);
    }
    (d.subj, d.in_out, d.f32).hash(&mut h);
    let family = match (d.integer, d.f32) {
        (true, _) => "integer-pairs",
        (false, false) => "float-pairs-f64",
        (false, true) => "float-pairs-f32",
    };
    if std::env::var("VERIF_PRINT_N2").is_ok() && obs.classes.contains(&"N2-corner-case-1-bump") && !d.f32 {
        eprintln!("N2 {}", pair_to_json(d));
    }
    Eval { obs, result, digest: h.finish(), family, sample: if want_sample { Some(pair_to_json(d)) } else { None }, skip: None }
}

pub fn pair_to_json(d: &SegPair) -> Value {
    let h = |v: f64| format!("{:016x}", v.to_bits());
    json!({
        "kind": "segment-pair",
        "s1": [h(d.s1.0.0), h(d.s1.0.1), h(d.s1.1.0), h(d.s1.1.1)],
        "s2": [h(d.s2.0.0), h(d.s2.0.1), h(d.s2.1.0), h(d.s2.1.1)],
        "s1_text": format!("({},{})-({},{})", d.s1.0.0, d.s1.0.1, d.s1.1.0, d.s1.1.1),
        "s2_text": format!("({},{})-({},{})", d.s2.0.0, d.s2.0.1, d.s2.1.0, d.s2.1.1),
        "subj": [d.subj.0, d.subj.1],
        "in_out": [d.in_out.0, d.in_out.1],
        "f32": d.f32,
        "integer": d.integer,
    })
}

pub fn pair_from_json(v: &Value) -> Option<SegPair> {
    let g = |k: &str| -> Option<Vec<f64>> {
        v.get(k)?.as_array()?.iter().map(|x| match x {
            Value::String(s) => u64::from_str_radix(s, 16).ok().map(f64::from_bits),
            Value::Number(n) => n.as_f64(),
            _ => None,
        }).collect()
    };
    let (a, b) = (g("s1")?, g("s2")?);
    let bb = |k: &str| -> Option<(bool, bool)> {
        let x = v.get(k)?.as_array()?;
        Some((x.first()?.as_bool()?, x.get(1)?.as_bool()?))
    };
    Some(SegPair {
        s1: ((a[0], a[1]), (a[2], a[3])),
        s2: ((b[0], b[1]), (b[2], b[3])),
        subj: bb("subj")?,
        in_out: bb("in_out")?,
        f32: v.get("f32")?.as_bool()?,
        integer: v.get("integer")?.as_bool()?,
    })
}

// ---------------------------------------------------------------------------------------------
// generators

/// all ordered pairs of segments on the (n+1)x(n+1) lattice x operand flags x in_out flags
pub fn lattice_space(n: i64) -> (u64, Box<dyn Fn(u64) -> Option<SegPair> + Sync>) {
    let pts: Vec<(i64, i64)> = (0..=n).flat_map(|x| (0..=n).map(move |y| (x, y))).collect();
    let mut segs: Vec<((f64, f64), (f64, f64))> = Vec::new();
    for i in 0..pts.len() {
        for j in i + 1..pts.len() {
            segs.push(((pts[i].0 as f64, pts[i].1 as f64), (pts[j].0 as f64, pts[j].1 as f64)));
        }
    }
    let ns = segs.len() as u64;
    let total = ns * ns * 16;
    (
        total,
        Box::new(move |i| {
            let flags = i % 16;
            let k = i / 16;
            let (a, b) = (segs[(k / ns) as usize], segs[(k % ns) as usize]);
            Some(SegPair { s1: a, s2: b, subj: (flags & 1 != 0, flags & 2 != 0), in_out: (flags & 4 != 0, flags & 8 != 0), f32: false, integer: true })
        }),
    )
}

fn ipt(range: i64) -> BoxedStrategy<(i64, i64)> {
    (-range..=range, -range..=range).boxed()
}

/// integer pairs drawn by case class
pub fn integer_strategy() -> BoxedStrategy<SegPair> {
    integer_strategy_lim((1i64 << 25) - 1, false)
}

/// integer pairs with |coordinate| <= lim; `single`: to be run in f32 (lim must then keep every product exact in f32)
pub fn integer_strategy_lim(lim: i64, single: bool) -> BoxedStrategy<SegPair> {
    let range = prop_oneof![3 => Just(6i64.min(lim)), 2 => Just(1000i64.min(lim)), 2 => Just(lim)];
    let dl = 1000i64.min(lim);
    let dirs = prop_oneof![
        4 => (-6i64..=6, -6i64..=6),
        1 => Just((0i64, 1i64)),
        1 => Just((1i64, 0i64)),
        1 => (-dl..=dl, -dl..=dl),
    ];
    let flags = (any::<bool>(), any::<bool>(), any::<bool>(), any::<bool>());
    let f = |p: (i64, i64)| (p.0 as f64, p.1 as f64);
    let clampp = move |p: (i64, i64)| (p.0.clamp(-lim, lim), p.1.clamp(-lim, lim));
    range
        .prop_flat_map(move |r| {
            let random = (ipt(r), ipt(r), ipt(r), ipt(r)).prop_map(|(a, b, c, d)| (a, b, c, d)).boxed();
            let common = (ipt(r), ipt(r), ipt(r), 0u8..4).prop_map(|(a, b, c, w)| match w {
                0 => (a, b, a, c),
                1 => (a, b, b, c),
                2 => (a, b, c, a),
                _ => (a, b, c, b),
            }).boxed();
            // T: a point strictly inside segment 1 is an endpoint of segment 2
            let tee = (ipt(r), dirs.clone(), 2i64..8, 1i64..8, ipt(r), any::<bool>()).prop_map(|(a, v, k, j, c, sw)| {
                let j = 1 + (j - 1) % (k - 1);
                let b = (a.0 + k * v.0, a.1 + k * v.1);
                let t = (a.0 + j * v.0, a.1 + j * v.1);
                if sw { (a, b, c, t) } else { (a, b, t, c) }
            }).boxed();
            // collinear: four parameters on one line
            let col = (ipt(r), dirs.clone(), -6i64..=6, -6i64..=6, -6i64..=6, -6i64..=6).prop_map(|(a, v, i, j, k, l)| {
                let p = |t: i64| (a.0 + t * v.0, a.1 + t * v.1);
                (p(i), p(j), p(k), p(l))
            }).boxed();
            // long, almost parallel segments crossing properly at a lattice point: P - i*u .. P + j*u and P - k*v .. P + m*v
            // with u = (l, d), v = u + (e1, e2) for tiny (e1, e2)
            let big = (lim / 8).max(2);
            let npar = (ipt(r.min(lim / 2)), 1i64..=big, -3i64..=3, -2i64..=2, -2i64..=2, (1i64..4, 1i64..4, 1i64..4, 1i64..4), any::<bool>()).prop_map(|(p, l, d, e1, e2, (i, j, k, m), tr)| {
                let (u, v) = ((l, d), (l + e1, d + e2));
                let t = |q: (i64, i64)| if tr { (q.1, q.0) } else { q };
                (t((p.0 - i * u.0, p.1 - i * u.1)), t((p.0 + j * u.0, p.1 + j * u.1)), t((p.0 - k * v.0, p.1 - k * v.1)), t((p.0 + m * v.0, p.1 + m * v.1)))
            }).boxed();
            prop_oneof![3 => random, 2 => common, 3 => tee, 4 => col, 2 => npar]
        })
        .prop_flat_map(move |(a, b, c, d)| (Just((clampp(a), clampp(b), clampp(c), clampp(d))), flags.clone()))
        .prop_map(move |((a, b, c, d), fl)| SegPair { s1: (f(a), f(b)), s2: (f(c), f(d)), subj: (fl.0, fl.1), in_out: (fl.2, fl.3), f32: single, integer: true })
        .boxed()
}

/// finite float pairs: uniform, near-vertical, near-parallel, huge / small magnitude
pub fn float_strategy(single: bool) -> BoxedStrategy<SegPair> {
    let coord = || prop_oneof![4 => -1000.0f64..1000.0, 1 => (-50i32..50).prop_map(|i| i as f64)];
    let point = move || (coord(), coord());
    let flags = (any::<bool>(), any::<bool>(), any::<bool>(), any::<bool>());
    let shapes = prop_oneof![
        4 => (point(), point(), point(), point()).prop_map(|(a, b, c, d)| (a, b, c, d)),
        // near-vertical first segment: x of the second endpoint a few ulps from the first
        3 => (point(), -1000.0f64..1000.0, -40i64..40, point(), point()).prop_map(|(a, y, du, c, d)| {
            let x = f64::from_bits((a.0.to_bits() as i64 + du) as u64);
            (a, (if x.is_finite() { x } else { a.0 }, y), c, d)
        }),
        // both near-vertical and close to each other
        2 => (point(), -1000.0f64..1000.0, -40i64..40, -40i64..40, -40i64..40, -1000.0f64..1000.0, -1000.0f64..1000.0).prop_map(|(a, y, d1, d2, d3, y2, y3)| {
            let nx = |u: i64| { let x = f64::from_bits((a.0.to_bits() as i64 + u) as u64); if x.is_finite() { x } else { a.0 } };
            (a, (nx(d1), y), (nx(d2), y2), (nx(d3), y3))
        }),
        // near-parallel: second segment is the first one moved by a tiny amount
        2 => (point(), point(), -1e-9f64..1e-9, -1e-9f64..1e-9, -1e-9f64..1e-9, -1e-9f64..1e-9).prop_map(|(a, b, e1, e2, e3, e4)| (a, b, (a.0 + e1, a.1 + e2), (b.0 + e3, b.1 + e4))),
        // shared endpoint / T in floats
        2 => (point(), point(), point(), 0.0f64..1.0).prop_map(|(a, b, c, t)| (a, b, (a.0 + t * (b.0 - a.0), a.1 + t * (b.1 - a.1)), c)),
    ];
    (shapes, -60i32..60, flags)
        .prop_map(move |((a, b, c, d), k, fl)| {
            let s = (2.0f64).powi(if single { k / 3 } else { k });
            let g = |p: (f64, f64)| -> (f64, f64) {
                let q = (p.0 * s, p.1 * s);
                if single { ((q.0 as f32) as f64, (q.1 as f32) as f64) } else { q }
            };
            SegPair { s1: (g(a), g(b)), s2: (g(c), g(d)), subj: (fl.0, fl.1), in_out: (fl.2, fl.3), f32: single, integer: false }
        })
        .boxed()
}
