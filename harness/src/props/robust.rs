//! C03: every call on valid input returns; the number of processed sweep events is bounded by B(n).
use crate::exec::*;
use crate::gen::{validate_operand, Case};
use crate::geom::*;
use crate::props::laws::rewrite;
use crate::props::more::f32_case;
use crate::props::result::{classify_inputs, region_check, PairCtx};
use crate::runner::{Eval, Failure, Obs};
use crate::ser;
use geo_types::{LineString, MultiPolygon, Polygon};
use proptest::prelude::*;
use serde_json::{json, Value};

pub fn build_name() -> &'static str {
    if cfg!(debug_assertions) {
        "release+debug-assertions+overflow-checks"
    } else {
        "release"
    }
}

fn call_failure(what: &str, p: &PanicInfo) -> Failure {
    Failure::new(
        if p.budget_exceeded { "event-bound-exceeded" } else { "panic" },
        format!("{} [{} build]: panicked at {}:{}: {} (sweep events processed: {})", what, build_name(), p.file, p.line, p.message, p.events),
    )
}

/// (a) robust-domain cases: all operations, one pairing, f64 and (when representable) f32
pub fn c03_case(case: &Case, obs: &mut Obs) -> Result<(), Failure> {
    let ctx = PairCtx::new(&case.a, &case.b, case.tol());
    obs.nontrivial = classify_inputs(case, &ctx, obs);
    let pairing = Pairing::choose(&case.a, &case.b, case.bits);
    let n = n_edges(&case.a, &case.b);
    let mut max_events = 0u64;
    for op in OPS {
        run_op(Prec::F64, pairing, &case.a, &case.b, op).map_err(|p| call_failure(&format!("{} ({})", op_name(op), pairing.name()), &p))?;
        max_events = max_events.max(events_processed());
    }
    if n > 0 {
        obs.count("events_per_edge_x100_max", 0);
        if max_events as f64 > 8.0 * n as f64 {
            obs.class("events>8n");
        }
    }
    if let Some(c32) = f32_case(case) {
        obs.class("f32");
        for op in OPS {
            run_op(Prec::F32, pairing, &c32.a, &c32.b, op).map_err(|p| call_failure(&format!("f32 {} ({})", op_name(op), pairing.name()), &p))?;
        }
    }
    Ok(())
}

// ---------------------------------------------------------------------------------------------
// (b) degenerate-but-valid operands

fn sq(x0: f64, y0: f64, s: f64) -> Polygon<f64> {
    Polygon::new(LineString(vec![pt(x0, y0), pt(x0 + s, y0), pt(x0 + s, y0 + s), pt(x0, y0 + s), pt(x0, y0)]), vec![])
}

pub fn edge_operands() -> Vec<(&'static str, MP)> {
    let unit = sq(0.0, 0.0, 2.0);
    let hole_sq = {
        let mut h = sq(0.5, 0.5, 1.0).exterior().clone();
        h.0.reverse();
        h
    };
    vec![
        ("empty multipolygon", MultiPolygon(vec![])),
        ("polygon with empty exterior", MultiPolygon(vec![Polygon::new(LineString(vec![]), vec![])])),
        ("square with an empty hole", MultiPolygon(vec![Polygon::new(unit.exterior().clone(), vec![LineString(vec![])])])),
        ("ring of one repeated point", MultiPolygon(vec![Polygon::new(LineString(vec![pt(1.0, 1.0), pt(1.0, 1.0), pt(1.0, 1.0), pt(1.0, 1.0)]), vec![])])),
        ("square with a hole of one repeated point", MultiPolygon(vec![Polygon::new(unit.exterior().clone(), vec![LineString(vec![pt(1.0, 1.0), pt(1.0, 1.0), pt(1.0, 1.0)])])])),
        ("single-point exterior", MultiPolygon(vec![Polygon::new(LineString(vec![pt(3.0, 3.0)]), vec![])])),
        ("square", MultiPolygon(vec![unit.clone()])),
        ("square with repeated consecutive vertices", rewrite(&MultiPolygon(vec![unit.clone()]), 0x1234_5678_9abc_def1)),
        ("square with hole", MultiPolygon(vec![Polygon::new(unit.exterior().clone(), vec![hole_sq.clone()])])),
        ("square with hole, repeated vertices", rewrite(&MultiPolygon(vec![Polygon::new(unit.exterior().clone(), vec![hole_sq])]), 0xfeed_beef_1234_4321)),
        ("overlapping-position square", MultiPolygon(vec![sq(1.0, 1.0, 2.0)])),
        ("two squares and an empty polygon", MultiPolygon(vec![sq(0.0, 0.0, 1.0), Polygon::new(LineString(vec![]), vec![]), sq(3.0, 0.0, 1.0)])),
        ("far square", MultiPolygon(vec![sq(100.0, 100.0, 1.0)])),
    ]
}

/// all ordered pairs of edge operands x operations x allowed pairings x f64/f32; returns (evaluations, nontrivial)
pub fn run_edge_cases(violations: &mut Vec<(String, Failure, Value)>) -> (u64, u64, Vec<Value>) {
    let ops = edge_operands();
    let mut n = 0;
    let mut nt = 0;
    let mut samples = Vec::new();
    for (na, a) in &ops {
        for (nb, b) in &ops {
            let ctx = PairCtx::new(a, b, 0.0);
            for op in OPS {
                for pairing in PAIRINGS {
                    if !pairing.allowed(a, b) {
                        continue;
                    }
                    for prec in [Prec::F64, Prec::F32] {
                        n += 1;
                        let what = format!("A = {} ; B = {} ; {} ; {} ; {:?}", na, nb, op_name(op), pairing.name(), prec);
                        let case = Case { family: "edge-cases", a: a.clone(), b: b.clone(), c: MultiPolygon(vec![]), exact: true, selfx: false, bits: 0 };
                        match run_op(prec, pairing, a, b, op) {
                            Err(p) => {
                                violations.push((what.clone(), call_failure(&what, &p), ser::case_to_json(&case)));
                            }
                            Ok(r) => {
                                if !ctx.trivial_path {
                                    nt += 1;
                                }
                                if let Err((p, ia, ib, s)) = region_check(&r, &ctx, op) {
                                    violations.push((what.clone(), Failure::new("region-mismatch", format!("{}: witness ({},{}) inA={} inB={} result {:?}: {}", what, p.x, p.y, ia, ib, s, ser::mp_to_text(&r))), ser::case_to_json(&case)));
                                }
                            }
                        }
                        if samples.len() < 3 && na != nb && prec == Prec::F64 && pairing == Pairing::MM && op == geo_booleanop::boolean::Operation::Union && na.contains("empty") {
                            samples.push(json!({"edge_case": what, "A": ser::mp_to_text(a), "B": ser::mp_to_text(b)}));
                        }
                    }
                }
            }
        }
    }
    (n, nt, samples)
}

// ---------------------------------------------------------------------------------------------
// (d) adversarial domain, tolerated-signature mode

#[derive(Clone, Debug, PartialEq)]
pub enum Adv {
    /// two simple polygons whose vertices are points of a small integer lattice, sorted by angle around the centroid
    Lattice { a: Vec<(u8, u8)>, b: Vec<(u8, u8)>, n: u8 },
    /// float stars squashed in x to a few thousand ulps around 1.0 (`single`: coordinates rounded to f32 and the
    /// operation run in f32)
    Steep { desc: crate::gen::CaseDesc, squash: u8, single: bool },
}

pub fn adv_strategy() -> BoxedStrategy<Adv> {
    use proptest::collection::vec;
    let lat = (5u8..=8).prop_flat_map(|n| (vec((0..=n, 0..=n), 3..8), vec((0..=n, 0..=n), 3..8), Just(n))).prop_map(|(a, b, n)| Adv::Lattice { a, b, n });
    let steep = (crate::gen::strat::case(crate::gen::strat::gen_shape(), false), 30u8..48).prop_map(|(desc, squash)| Adv::Steep { desc, squash, single: false });
    let steep32 = (crate::gen::strat::case(crate::gen::strat::gen_shape(), false), 6u8..18).prop_map(|(desc, squash)| Adv::Steep { desc, squash, single: true });
    prop_oneof![6 => lat, 2 => steep, 2 => steep32].boxed()
}

fn lattice_poly(pts: &[(u8, u8)]) -> Option<MP> {
    let mut v: Vec<(i64, i64)> = Vec::new();
    for &(x, y) in pts {
        if !v.contains(&(x as i64, y as i64)) {
            v.push((x as i64, y as i64));
        }
    }
    if v.len() < 3 {
        return None;
    }
    let k = v.len() as f64;
    let cx = v.iter().map(|p| p.0 as f64).sum::<f64>() / k + 0.013;
    let cy = v.iter().map(|p| p.1 as f64).sum::<f64>() / k + 0.007;
    v.sort_by(|a, b| ((a.1 as f64 - cy).atan2(a.0 as f64 - cx)).partial_cmp(&(b.1 as f64 - cy).atan2(b.0 as f64 - cx)).unwrap());
    let mut ring: Vec<P> = v.iter().map(|p| pt(p.0 as f64, p.1 as f64)).collect();
    ring.push(ring[0]);
    let mp = MultiPolygon(vec![Polygon::new(LineString(ring), vec![])]);
    // valid = simple: no crossing / overlapping edges, no vertex on a non-incident edge
    if validate_operand(&mp, &[]).is_err() || !crate::norm::canonical(&mp) {
        return None;
    }
    Some(mp)
}

pub fn adv_operands(d: &Adv) -> Option<(MP, MP)> {
    match d {
        Adv::Lattice { a, b, .. } => Some((lattice_poly(a)?, lattice_poly(b)?)),
        Adv::Steep { desc, squash, single } => {
            let case = desc.expand(false).ok()?;
            let sq = (2.0f64).powi(-(*squash as i32));
            let r = |v: f64| if *single { (v as f32) as f64 } else { v };
            let f = |p: P| pt(r(1.0 + p.x * sq), r(p.y));
            let (a, b) = (map_mp(&case.a, &f), map_mp(&case.b, &f));
            if validate_operand(&a, &[]).is_err() || validate_operand(&b, &[]).is_err() {
                return None;
            }
            Some((a, b))
        }
    }
}

#[derive(Clone, Copy, PartialEq, Eq, Debug)]
pub enum Signature {
    K1,
    K2,
    K3,
    K4,
    Other,
}

fn ulps_apart(a: f64, b: f64) -> u64 {
    let k = |x: f64| {
        let b = x.to_bits() as i64;
        if b < 0 {
            i64::MIN - b
        } else {
            b
        }
    };
    (k(a) as i128 - k(b) as i128).unsigned_abs() as u64
}

/// classify a panic by the recorded call-site signatures of the known findings
pub fn signature(p: &PanicInfo) -> Signature {
    let file = p.file.rsplit('/').next().unwrap_or("");
    if p.budget_exceeded {
        let l = &p.last_points;
        if l.len() >= 16 {
            let spread = l.iter().map(|q| ulps_apart(q.0, l[0].0)).max().unwrap_or(u64::MAX);
            if spread <= 64 {
                return Signature::K2;
            }
            // a run in single precision walks in f32 ulps
            if l.iter().all(|q| (q.0 as f32) as f64 == q.0) {
                let k = |x: f64| {
                    let b = (x as f32).to_bits() as i32;
                    if b < 0 {
                        i32::MIN - b
                    } else {
                        b
                    }
                };
                let spread32 = l.iter().map(|q| (k(q.0) as i64 - k(l[0].0) as i64).unsigned_abs()).max().unwrap_or(u64::MAX);
                if spread32 <= 64 {
                    return Signature::K2;
                }
            }
        }
        return Signature::Other;
    }
    if file == "connect_edges.rs" && p.message.starts_with("index out of bounds") && p.message.contains("18446744073709551615") {
        return Signature::K1;
    }
    if file == "subdivide_segments.rs" && p.message.starts_with("Sweep line misses event to be removed") {
        return Signature::K3;
    }
    if file == "connect_edges.rs" && p.message.starts_with("Invalid lower_contour_id should be impossible") {
        return Signature::K4;
    }
    Signature::Other
}

pub fn adv_prec(d: &Adv) -> Prec {
    match d {
        Adv::Steep { single: true, .. } => Prec::F32,
        _ => Prec::F64,
    }
}

pub fn eval_adv(d: &Adv, want_sample: bool) -> Eval {
    let (a, b) = match adv_operands(d) {
        Some(x) => x,
        None => return Eval::skipped(crate::gen::Reject::Margin),
    };
    let mut obs = Obs::default();
    obs.nontrivial = !boxes_disjoint(&mp_edges(&a), &mp_edges(&b));
    let mut result = Ok(());
    let prec = adv_prec(d);
    if prec == Prec::F32 {
        obs.class("adversarial-f32");
    }
    for op in OPS {
        if let Err(p) = run_op(prec, Pairing::MM, &a, &b, op) {
            match signature(&p) {
                Signature::K1 => {
                    obs.count("known_signature_hits_K1", 1);
                    obs.class("K1-signature");
                }
                Signature::K2 => {
                    obs.count("known_signature_hits_K2", 1);
                    obs.class("K2-signature");
                }
                // the two recorded debug assertions exist only in builds with debug assertions
                Signature::K3 if cfg!(debug_assertions) => {
                    obs.count("known_signature_hits_K3", 1);
                    obs.class("K3-signature");
                }
                Signature::K4 if cfg!(debug_assertions) => {
                    obs.count("known_signature_hits_K4", 1);
                    obs.class("K4-signature");
                }
                other => {
                    result = Err(Failure::new(
                        if p.budget_exceeded { "event-bound-exceeded" } else { "panic" },
                        format!("{} on adversarial input: panicked at {}:{}: {} (events {}; signature {:?}; last event points {:?})", op_name(op), p.file, p.line, p.message, p.events, other, p.last_points),
                    ));
                    break;
                }
            }
        }
    }
    let case = Case { family: "adversarial", a, b, c: MultiPolygon(vec![]), exact: false, selfx: false, bits: 0 };
    Eval { obs, result, digest: ser::case_digest(&case), family: "adversarial", sample: if want_sample { Some(ser::case_sample(&case)) } else { None }, skip: None }
}

pub fn adv_replay(d: &Adv) -> Value {
    match adv_operands(d) {
        Some((a, b)) => {
            let case = Case { family: "adversarial", a, b, c: MultiPolygon(vec![]), exact: false, selfx: false, bits: 0 };
            let mut v = ser::case_to_json(&case);
            v["kind"] = json!("c03-case");
            v
        }
        None => json!({}),
    }
}

/// strict evaluation of an explicit operand pair (replay files, pinned known findings): which operations fail how
pub fn strict_pair(a: &MP, b: &MP, ops: &[geo_booleanop::boolean::Operation]) -> Vec<(geo_booleanop::boolean::Operation, PanicInfo, Signature)> {
    let mut out = Vec::new();
    for &op in ops {
        if let Err(p) = run_op(Prec::F64, Pairing::MM, a, b, op) {
            let s = signature(&p);
            out.push((op, p, s));
        }
    }
    out
}

// ---------------------------------------------------------------------------------------------
// pinned adversarial corpus for C01: the inexact-and-degenerate region, as a regression net

/// digests of the pinned-corpus cases on which the unchanged tree is known to return a wrong region or to panic with
/// a recorded signature (corpus/known/adv_c01_digests.json); loaded once
pub fn adv_known_digests() -> &'static std::collections::HashSet<u64> {
    adv_known_digests_for("C01")
}

/// the same list for the pinned corpus judged by another property's oracle (C02: structure, C05: consistency)
pub fn adv_known_digests_for(prop: &str) -> &'static std::collections::HashSet<u64> {
    use std::sync::OnceLock;
    static C01: OnceLock<std::collections::HashSet<u64>> = OnceLock::new();
    static C02: OnceLock<std::collections::HashSet<u64>> = OnceLock::new();
    static C05: OnceLock<std::collections::HashSet<u64>> = OnceLock::new();
    let (cell, file) = match prop {
        "C02" => (&C02, "adv_c02_digests.json"),
        "C05" => (&C05, "adv_c05_digests.json"),
        _ => (&C01, "adv_c01_digests.json"),
    };
    cell.get_or_init(|| {
        let path = format!("{}/corpus/known/{}", crate::runner::verif_root(), file);
        let mut set = std::collections::HashSet::new();
        if let Ok(s) = std::fs::read_to_string(&path) {
            if let Ok(v) = serde_json::from_str::<Value>(&s) {
                if let Some(a) = v.get("digests").and_then(|d| d.as_array()) {
                    for d in a {
                        if let Some(h) = d.as_str().and_then(|h| u64::from_str_radix(h, 16).ok()) {
                            set.insert(h);
                        }
                    }
                }
            }
        }
        set
    })
}

/// the strategy of the pinned corpus: small-lattice simple polygons only (integer coordinates: fully deterministic)
pub fn adv_lattice_strategy() -> BoxedStrategy<Adv> {
    use proptest::collection::vec;
    (5u8..=8).prop_flat_map(|n| (vec((0..=n, 0..=n), 3..8), vec((0..=n, 0..=n), 3..8), Just(n))).prop_map(|(a, b, n)| Adv::Lattice { a, b, n }).boxed()
}

/// C01's oracle on one pinned-corpus case. `collect`: report every failing case (used to build the known list);
/// otherwise cases whose digest is listed are counted and not reported.
pub fn eval_adv_c01(d: &Adv, want_sample: bool, collect: Option<&std::sync::Mutex<Vec<u64>>>) -> Eval {
    eval_adv_prop(d, "C01", want_sample, collect)
}

/// the pinned corpus judged by the oracle of C01 (membership), C02 (structure of the result) or C05 (mutual consistency)
pub fn eval_adv_prop(d: &Adv, prop: &'static str, want_sample: bool, collect: Option<&std::sync::Mutex<Vec<u64>>>) -> Eval {
    if prop == "C01" {
        return eval_adv_c01_inner(d, want_sample, collect);
    }
    let (a, b) = match adv_operands(d) {
        Some(x) => x,
        None => return Eval::skipped(crate::gen::Reject::Margin),
    };
    let case = Case { family: "adversarial-pinned", a, b, c: MultiPolygon(vec![]), exact: false, selfx: false, bits: 0 };
    let digest = ser::case_digest(&case);
    let mut obs = Obs::default();
    obs.nontrivial = !boxes_disjoint(&mp_edges(&case.a), &mp_edges(&case.b));
    let mut scratch = Obs::default();
    let r = if prop == "C02" { crate::props::result::c02(&case, &mut scratch, Prec::F64) } else { crate::props::result::c05(&case, &mut scratch, Prec::F64) };
    let mut result = Ok(());
    if let Err(f) = r {
        if let Some(c) = collect {
            c.lock().unwrap().push(digest);
        } else if adv_known_digests_for(prop).contains(&digest) {
            obs.count("known_adversarial_corpus_failures", 1);
            obs.class("known-finding-K5");
        } else {
            result = Err(Failure::new(f.clause, format!("pinned adversarial corpus: {}", f.detail)));
        }
    }
    Eval { obs, result, digest, family: "adversarial-pinned", sample: if want_sample { Some(ser::case_sample(&case)) } else { None }, skip: None }
}

fn eval_adv_c01_inner(d: &Adv, want_sample: bool, collect: Option<&std::sync::Mutex<Vec<u64>>>) -> Eval {
    let (a, b) = match adv_operands(d) {
        Some(x) => x,
        None => return Eval::skipped(crate::gen::Reject::Margin),
    };
    let case = Case { family: "adversarial-pinned", a, b, c: MultiPolygon(vec![]), exact: false, selfx: false, bits: 0 };
    let digest = ser::case_digest(&case);
    let mut obs = Obs::default();
    let ctx = PairCtx::new(&case.a, &case.b, case.tol());
    obs.nontrivial = !ctx.trivial_path;
    let mut failure: Option<Failure> = None;
    for op in OPS {
        match run_op(Prec::F64, Pairing::MM, &case.a, &case.b, op) {
            Err(p) => {
                let sig = signature(&p);
                failure = Some(Failure::new("panic", format!("{} panicked at {}:{}: {} (signature {:?})", op_name(op), p.file, p.line, p.message, sig)));
                break;
            }
            Ok(r) => {
                if let Err((w, ia, ib, s)) = region_check(&r, &ctx, op) {
                    failure = Some(Failure::new("region-mismatch", format!("pinned adversarial corpus: {} witness ({},{}) inA={} inB={} result membership {:?}; result {}", op_name(op), w.x, w.y, ia, ib, s, ser::mp_to_text(&r))));
                    break;
                }
            }
        }
    }
    let mut result = Ok(());
    if let Some(f) = failure {
        if let Some(c) = collect {
            c.lock().unwrap().push(digest);
        } else if adv_known_digests().contains(&digest) {
            obs.count("known_adversarial_corpus_failures", 1);
            obs.class("known-finding-K5");
        } else {
            result = Err(f);
        }
    }
    Eval { obs, result, digest, family: "adversarial-pinned", sample: if want_sample { Some(ser::case_sample(&case)) } else { None }, skip: None }
}
