//! C10 (f32 vs f64), C11 (chained operations), C12 (purity and determinism).
use crate::exec::*;
use crate::gen::{general_position, validate_operand, Case, MARGIN_REL};
use crate::geom::*;
use crate::norm::*;
use crate::props::laws;
use crate::props::result::{self, panic_failure, structure_check};
use crate::runner::{Failure, Obs};
use crate::ser::mp_to_text;
use geo_booleanop::boolean::Operation;
use geo_types::MultiPolygon;

// ---------------------------------------------------------------------------------------------
// C10

/// the case with every coordinate rounded to f32 (then widened), re-validated exactly; None if it does not
/// survive (invalid after rounding, or the general-position margin for single precision is not met)
pub fn f32_case(case: &Case) -> Option<Case> {
    let r = |mp: &MP| map_mp(mp, &|p| pt((p.x as f32) as f64, (p.y as f32) as f64));
    let c = Case { family: case.family, a: r(&case.a), b: r(&case.b), c: r(&case.c), exact: case.exact, selfx: case.selfx, bits: case.bits };
    if case.exact {
        // exact families must be representable as they are (rounding would destroy exactness)
        if c.a != case.a || c.b != case.b || c.c != case.c {
            return None;
        }
        // and so must every arrangement vertex: coordinates are multiples of a power of two g with |c|/g < 2^22
        let mut g = f64::INFINITY;
        let mut m = 0.0f64;
        for mp in [&c.a, &c.b, &c.c] {
            for ring in rings_of(mp) {
                for p in &ring.0 {
                    for v in [p.x, p.y] {
                        if v != 0.0 {
                            let tz = v.to_bits() & ((1u64 << 52) - 1);
                            let e = ((v.to_bits() >> 52) & 0x7ff) as i32 - 1075;
                            let low = if tz == 0 { 52 } else { tz.trailing_zeros() as i32 };
                            g = g.min((2.0f64).powi(e + low));
                            m = m.max(v.abs());
                        }
                    }
                }
            }
        }
        let mut edges = mp_edges(&c.a);
        edges.extend(mp_edges(&c.b));
        edges.extend(mp_edges(&c.c));
        let extent = bbox_of(&edges).map(|b| (b.2 - b.0).max(b.3 - b.1)).unwrap_or(0.0);
        // coordinates fit 22 bits and coordinate differences 11 bits, so that every product the library forms in
        // single precision is exact
        if case.family == "flat-oct" {
            // anisotropic power-of-two scaling: every product the library forms scales consistently, so exactness in
            // f32 is that of the unscaled lattice; only representability of the coordinates limits kx
            if m >= (1u64 << 23) as f64 {
                return None;
            }
        } else if g.is_finite() && (m / g >= (1u64 << 21) as f64 || extent / g >= 2048.0) {
            return None;
        }
        return Some(c);
    }
    for mp in [&c.a, &c.b, &c.c] {
        if !case.selfx && validate_operand(mp, &[]).is_err() {
            return None;
        }
    }
    if case.family == "gen" || case.family == "selfx" {
        let mut edges = mp_edges(&c.a);
        edges.extend(mp_edges(&c.b));
        edges.extend(mp_edges(&c.c));
        let mag = c.mag();
        if !general_position(&edges, (MARGIN_REL * 2000.0) * mag) || edges.iter().any(|s| edges.iter().any(|t| proper_cross(*s, *t) && abs_sin(*s, *t) < 2e-2)) {
            return None;
        }
    }
    Some(c)
}

pub fn c10(case: &Case, obs: &mut Obs) -> Result<(), Failure> {
    let c32 = match f32_case(case) {
        Some(c) => c,
        None => {
            obs.count("skipped_not_f32_safe", 1);
            return Ok(());
        }
    };
    let wrap = |name: &str, r: Result<(), Failure>| r.map_err(|f| Failure::new(format!("f32:{}:{}", name, f.clause), f.detail));
    let mut sub = Obs::default();
    if c32.exact {
        obs.class("exact-f32-vs-f64");
        for op in OPS {
            let pairing = Pairing::choose(&c32.a, &c32.b, c32.bits);
            let r64 = run_op(Prec::F64, pairing, &c32.a, &c32.b, op).map_err(|p| panic_failure(op_name(op), &p))?;
            let r32 = run_op(Prec::F32, pairing, &c32.a, &c32.b, op).map_err(|p| panic_failure(&format!("f32 {}", op_name(op)), &p))?;
            if r32 != r64 {
                return Err(Failure::new("f32-differs-from-f64", format!("op={}: f32 result {} but f64 result {}", op_name(op), mp_to_text(&r32), mp_to_text(&r64))));
            }
        }
    }
    wrap("C01", result::c01(&c32, &mut sub, Prec::F32))?;
    let nt = sub.nontrivial;
    wrap("C02", result::c02(&c32, &mut sub, Prec::F32))?;
    if !c32.selfx {
        let mut o4 = Obs::default();
        wrap("C04", result::c04(&c32, &mut o4, Prec::F32))?;
        if o4.nontrivial {
            obs.class("computed-vertex");
        }
        obs.nontrivial = nt && o4.nontrivial;
    }
    wrap("C05", result::c05(&c32, &mut sub, Prec::F32))?;
    if !c32.selfx {
        match c32.bits % 4 {
            0 => {
                obs.class("f32-C06");
                wrap("C06", laws::c06(&c32, &mut sub, Prec::F32))?
            }
            1 => {
                obs.class("f32-C07");
                wrap("C07", laws::c07(&c32, &mut sub, Prec::F32))?
            }
            2 => {
                obs.class("f32-C08");
                wrap("C08", laws::c08(&c32, &mut sub, Prec::F32))?
            }
            _ => {
                obs.class("f32-C09");
                wrap("C09", laws::c09(&c32, &mut sub, Prec::F32))?
            }
        }
    }
    for (k, n) in sub.counters {
        obs.count(k, n);
    }
    Ok(())
}

// ---------------------------------------------------------------------------------------------
// C11

/// "a returned multipolygon is an acceptable operand": closed rings of non-zero area, no two edges crossing or
/// overlapping (rings may touch themselves and each other in points), holes inside shells, parts disjoint
pub fn acceptable_operand(mp: &MP, exact: bool, tol: f64, obs: &mut Obs) -> Result<(), Failure> {
    for ring in rings_of(mp) {
        if ring.0.len() < 4 || ring.0.first() != ring.0.last() || ring_area2(ring) == 0.0 {
            return Err(Failure::new("intermediate-ring-degenerate", format!("ring {:?}", ring.0)));
        }
    }
    if exact {
        let edges = mp_edges(mp);
        for i in 0..edges.len() {
            for j in i + 1..edges.len() {
                let (s, t) = (edges[i], edges[j]);
                if s.0.x.max(s.1.x) < t.0.x.min(t.1.x) || t.0.x.max(t.1.x) < s.0.x.min(s.1.x) {
                    continue;
                }
                if proper_cross(s, t) || collinear_overlap(s, t) {
                    return Err(Failure::new("intermediate-edges-cross", format!("edges {:?} and {:?} of a returned multipolygon cross or overlap", s, t)));
                }
            }
        }
    }
    structure_check(mp, tol, obs)
}

pub fn c11(case: &Case, obs: &mut Obs) -> Result<(), Failure> {
    let tol = case.tol();
    let (a, b, c) = (&case.a, &case.b, &case.c);
    let (ea, eb, ec) = (mp_edges(a), mp_edges(b), mp_edges(c));
    let mut all3 = ea.clone();
    all3.extend(eb.iter().cloned());
    all3.extend(ec.iter().cloned());
    // witnesses of the joint arrangement with memberships
    let mut wit: Vec<(P, bool, bool, bool)> = Vec::new();
    for p in witnesses(&all3) {
        if tol > 0.0 && all3.iter().any(|&s| dist_point_seg(p, s) < tol) {
            obs.count("thin_faces_skipped", 1);
            continue;
        }
        let (x, y, z) = (evenodd(&ea, p), evenodd(&eb, p), evenodd(&ec, p));
        if x == Side::On || y == Side::On || z == Side::On {
            continue;
        }
        wit.push((p, x == Side::In, y == Side::In, z == Side::In));
    }
    let thirds: Vec<(usize, &MP)> = if case.exact { vec![(0, c), (1, a), (2, b)] } else { vec![(0, c)] };
    for (i, &op) in OPS.iter().enumerate() {
        let r = run_mm(a, b, op).map_err(|p| panic_failure(op_name(op), &p))?;
        if boxes_disjoint(&ea, &eb) {
            // rings handed back as given: acceptable because the operands were
        } else {
            acceptable_operand(&r, case.exact, tol, obs).map_err(|f| Failure::new(f.clause, format!("A {} B = {}: {}", op_name(op), mp_to_text(&r), f.detail)))?;
        }
        let er = mp_edges(&r);
        let computed = er.iter().any(|e| !all3.iter().any(|s| s.0 == e.0 || s.1 == e.0));
        let touching = !canonical(&r);
        if !r.0.is_empty() && (computed || touching) {
            obs.nontrivial = true;
        }
        if touching {
            obs.class("intermediate-has-touching-rings");
        }
        if computed {
            obs.class("intermediate-has-computed-vertex");
        }
        let _ = i;
        for &op2 in OPS.iter() {
            for &(ci, x) in &thirds {
                for side in 0..2 {
                    let res = if side == 0 { run_mm(&r, x, op2) } else { run_mm(x, &r, op2) };
                    let res = res.map_err(|p| panic_failure(&format!("(A {} B) {} X", op_name(op), op_name(op2)), &p))?;
                    let idx = PolyIndex::new(&res);
                    for &(p, ia, ib, ic) in &wit {
                        let ab = opf(op, ia, ib);
                        let ix = match ci {
                            0 => ic,
                            1 => ia,
                            _ => ib,
                        };
                        let want = if side == 0 { opf(op2, ab, ix) } else { opf(op2, ix, ab) };
                        let (s, _) = idx.polywise(p);
                        if s == Side::On || (s == Side::In) != want {
                            let xn = ["C", "A", "B"][ci];
                            let form = if side == 0 { format!("(A {} B) {} {}", op_name(op), op_name(op2), xn) } else { format!("{} {} (A {} B)", xn, op_name(op2), op_name(op)) };
                            return Err(Failure::new(
                                "chained-region-mismatch",
                                format!("{}: witness ({},{}) inA={} inB={} inC={} expected {} but result membership {:?}; intermediate {}; result {}", form, p.x, p.y, ia, ib, ic, want, s, mp_to_text(&r), mp_to_text(&res)),
                            ));
                        }
                    }
                }
            }
        }
    }
    // depth 3 on exact families: ((A op B) op2 C) op3 A for one op triple chosen by the bits
    if case.exact {
        let (o1, o2, o3) = (OPS[(case.bits % 4) as usize], OPS[((case.bits >> 2) % 4) as usize], OPS[((case.bits >> 4) % 4) as usize]);
        let r1 = run_mm(a, b, o1).map_err(|p| panic_failure("chain", &p))?;
        let r2 = run_mm(&r1, c, o2).map_err(|p| panic_failure("chain", &p))?;
        let r3 = run_mm(&r2, a, o3).map_err(|p| panic_failure("chain", &p))?;
        let idx = PolyIndex::new(&r3);
        for &(p, ia, ib, ic) in &wit {
            let want = opf(o3, opf(o2, opf(o1, ia, ib), ic), ia);
            let (s, _) = idx.polywise(p);
            if s == Side::On || (s == Side::In) != want {
                return Err(Failure::new("chained-region-mismatch", format!("((A {} B) {} C) {} A: witness ({},{}) expected {} got {:?}", op_name(o1), op_name(o2), op_name(o3), p.x, p.y, want, s)));
            }
        }
    }
    Ok(())
}

// ---------------------------------------------------------------------------------------------
// C12

fn bits_of(mp: &MP) -> Vec<Vec<Vec<(u64, u64)>>> {
    mp.0.iter().map(|p| std::iter::once(p.exterior()).chain(p.interiors().iter()).map(|r| r.0.iter().map(|c| (c.x.to_bits(), c.y.to_bits())).collect()).collect()).collect()
}

/// the first cases a process evaluates, with their results: re-evaluated at the very end of the run ("regardless of
/// what was computed before")
static C12_REFERENCE: std::sync::Mutex<Vec<(MP, MP, Vec<Vec<Vec<Vec<(u64, u64)>>>>)>> = std::sync::Mutex::new(Vec::new());

pub fn c12_recheck() -> Result<usize, Failure> {
    let refs = C12_REFERENCE.lock().unwrap();
    for (a, b, want) in refs.iter() {
        for (k, &op) in OPS.iter().enumerate() {
            let r = run_mm(a, b, op).map_err(|p| panic_failure(op_name(op), &p))?;
            if bits_of(&r) != want[k] {
                return Err(Failure::new(
                    "nondeterministic",
                    format!("{} of A = {} and B = {} returned {} at the end of the run, but something else when it was first computed at the start of the process", op_name(op), mp_to_text(a), mp_to_text(b), mp_to_text(&r)),
                ));
            }
        }
    }
    Ok(refs.len())
}

/// histories of calls over a pool of operands; placement 0 = this thread, 1 = fresh thread, 2 = batch of 8 threads
pub fn c12(case: &Case, obs: &mut Obs) -> Result<(), Failure> {
    use std::collections::HashMap;
    // inexact families: use the operands rounded to f32 values (re-validated), so that calls in both precisions can be
    // made on identical coordinates whose crossing points are representable in neither
    let rounded;
    let case = if !case.exact {
        match f32_case(case) {
            Some(c) => {
                rounded = c;
                &rounded
            }
            None => case,
        }
    } else {
        case
    };
    {
        let mut refs = C12_REFERENCE.lock().unwrap();
        if refs.len() < 48 && !boxes_disjoint(&mp_edges(&case.a), &mp_edges(&case.b)) {
            let mut res = Vec::new();
            for op in OPS {
                res.push(bits_of(&run_mm(&case.a, &case.b, op).map_err(|p| panic_failure(op_name(op), &p))?));
            }
            refs.push((case.a.clone(), case.b.clone(), res));
        }
    }
    // the pool: the three operands of the case, an empty operand, and two derived ones
    let mut pool: Vec<MP> = vec![case.a.clone(), case.b.clone(), case.c.clone(), MultiPolygon(vec![])];
    pool.push(MultiPolygon(case.a.0.iter().chain(case.c.0.iter().take(0)).cloned().collect()));
    if !case.a.0.is_empty() {
        pool.push(MultiPolygon(vec![case.a.0[0].clone()]));
    }
    // "for all operands": purity and determinism are claimed for operands that are not valid polygon sets as well
    // (overlapping parts, the same part twice). For calls on these a panic counts as a result like any other: it
    // must be the same panic every time.
    // Only on the integer lattice families: there every crossing point is representable, so the sweep over such an
    // operand makes the same finite number of divisions as over a valid one. On float operands, coincident edges of
    // one operand that cross a third edge at a rounded point can keep the sweep dividing for ever (seen once in
    // 85 000 histories; the library promises nothing there and a check must not depend on such a call returning).
    let first_unchecked = pool.len();
    if case.exact && (case.family == "rect" || case.family == "oct") {
        pool.push(MultiPolygon(case.a.0.iter().chain(case.b.0.iter()).cloned().collect()));
        pool.push(MultiPolygon(case.a.0.iter().chain(case.a.0.iter()).cloned().collect()));
        pool.push(MultiPolygon(case.b.0.iter().chain(case.b.0.iter()).chain(case.a.0.iter()).cloned().collect()));
    }
    let panic_value = |p: &PanicInfo| -> MP {
        let mut h: u64 = 1469598103934665603;
        for b in p.file.bytes().chain(p.message.bytes().take(48)) {
            h = (h ^ b as u64).wrapping_mul(1099511628211);
        }
        MultiPolygon(vec![geo_types::Polygon::new(geo_types::LineString(vec![pt(-7.0e300, p.line as f64), pt((h >> 12) as f64, 0.0), pt(-7.0e300, p.line as f64)]), vec![])])
    };
    let snapshot: Vec<_> = pool.iter().map(bits_of).collect();
    let n = pool.len() as u64;
    // the call history is derived from the bits (shrinks with them)
    let mut s = case.bits | 1;
    let mut next = move || {
        s ^= s << 13;
        s ^= s >> 7;
        s ^= s << 17;
        s
    };
    let len = 20 + (next() % 41) as usize;
    let calls: Vec<(usize, usize, usize, u64)> = (0..len).map(|_| ((next() % 4) as usize, (next() % n) as usize, (next() % n) as usize, next() % 4)).collect();
    // placement 3: the same call is first made in single precision on this thread (operands representable in f32)
    let f32_ok = pool.iter().all(f32_representable);
    let mut memo32: HashMap<(usize, usize, usize), MP> = HashMap::new();
    // equal operands (whatever their allocation) must give equal results: key calls by the first equal operand
    let canon: Vec<usize> = (0..pool.len()).map(|i| (0..=i).find(|&k| snapshot[k] == snapshot[i]).unwrap()).collect();
    let mut memo: HashMap<(usize, usize, usize), MP> = HashMap::new();
    let check_pool = |pool: &Vec<MP>, when: &str| -> Result<(), Failure> {
        for (i, mp) in pool.iter().enumerate() {
            if bits_of(mp) != snapshot[i] {
                return Err(Failure::new("operand-modified", format!("operand #{} changed {}: now {}", i, when, mp_to_text(mp))));
            }
        }
        Ok(())
    };
    for (step, &(opi, i, j, place)) in calls.iter().enumerate() {
        let op = OPS[opi];
        let budget = event_bound(n_edges(&pool[i], &pool[j]));
        if place == 3 && f32_ok && i < first_unchecked && j < first_unchecked {
            obs.class("f32-call-before-f64-call");
            let r32 = run_op(Prec::F32, Pairing::MM, &pool[i], &pool[j], op).map_err(|p| panic_failure(&format!("f32 {}", op_name(op)), &p))?;
            match memo32.get(&(opi, i, j)) {
                Some(first) if bits_of(first) != bits_of(&r32) => {
                    return Err(Failure::new("nondeterministic", format!("f32 call {} ({} #{} #{}) returned {} but the first such call returned {}", step, op_name(op), i, j, mp_to_text(&r32), mp_to_text(first))));
                }
                Some(_) => {}
                None => {
                    memo32.insert((opi, i, j), r32);
                }
            }
        }
        let r = match place {
            1 => {
                obs.class("fresh-thread");
                let (x, y) = (pool[i].clone(), pool[j].clone());
                std::thread::spawn(move || run_op(Prec::F64, Pairing::MM, &x, &y, op)).join().map_err(|_| Failure::new("thread-panicked", "worker thread panicked"))?
            }
            _ => guarded(budget, || {
                use geo_booleanop::boolean::BooleanOp;
                pool[i].boolean(&pool[j], op)
            }),
        };
        let r = match r {
            Ok(r) => r,
            Err(p) if i >= first_unchecked || j >= first_unchecked => {
                obs.class("panic-on-invalid-operand-as-value");
                panic_value(&p)
            }
            Err(p) => return Err(panic_failure(op_name(op), &p)),
        };
        if i >= first_unchecked || j >= first_unchecked {
            obs.class("call-on-overlapping-parts");
        }
        check_pool(&pool, &format!("during call {} ({} #{} #{})", step, op_name(op), i, j))?;
        if !boxes_disjoint(&mp_edges(&pool[i]), &mp_edges(&pool[j])) && !r.0.is_empty() {
            obs.nontrivial = true;
        }
        match memo.get(&(opi, canon[i], canon[j])) {
            Some(first) => {
                obs.class("repeated-call");
                if bits_of(first) != bits_of(&r) {
                    return Err(Failure::new("nondeterministic", format!("call {} ({} #{} #{}) returned {} but the first such call returned {}", step, op_name(op), i, j, mp_to_text(&r), mp_to_text(first))));
                }
            }
            None => {
                memo.insert((opi, canon[i], canon[j]), r);
            }
        }
    }
    // concurrent batch: 8 threads run the same calls in different orders at the same time
    if case.bits >> 60 & 1 == 1 || case.bits % 5 == 0 {
        obs.class("concurrent-batch");
        let shared_pool = std::sync::Arc::new(pool.clone());
        let shared_calls = std::sync::Arc::new(calls.clone());
        let mut handles = Vec::new();
        for t in 0..8usize {
            let (pl, cl) = (shared_pool.clone(), shared_calls.clone());
            handles.push(std::thread::spawn(move || {
                let mut out: Vec<(usize, Result<MP, PanicInfo>)> = Vec::new();
                let m = cl.len();
                for k in 0..m {
                    // a different traversal order per thread
                    let idx = match t % 4 {
                        0 => k,
                        1 => m - 1 - k,
                        2 => (k * 7 + t) % m,
                        _ => (k + t * 3) % m,
                    };
                    let (opi, i, j, _) = cl[idx];
                    out.push((idx, run_op(Prec::F64, Pairing::MM, &pl[i], &pl[j], OPS[opi])));
                }
                out
            }));
        }
        for h in handles {
            let out = h.join().map_err(|_| Failure::new("thread-panicked", "a concurrent worker panicked"))?;
            for (idx, r) in out {
                let (opi, i, j, _) = calls[idx];
                let r = match r {
                    Ok(r) => r,
                    Err(p) if i >= first_unchecked || j >= first_unchecked => panic_value(&p),
                    Err(p) => return Err(panic_failure(op_name(OPS[opi]), &p)),
                };
                if let Some(first) = memo.get(&(opi, canon[i], canon[j])) {
                    if bits_of(first) != bits_of(&r) {
                        return Err(Failure::new("nondeterministic", format!("a concurrently running thread got {} for {} #{} #{}, the reference is {}", mp_to_text(&r), op_name(OPS[opi]), i, j, mp_to_text(first))));
                    }
                }
            }
        }
        check_pool(&shared_pool, "during the concurrent batch")?;
    }
    check_pool(&pool, "by the end of the history")?;
    let _ = Operation::Union;
    Ok(())
}
