pub mod big;
pub mod laws;
pub mod more;
pub mod result;
pub mod robust;
pub mod segpair;
pub mod stage;
pub mod splay;

use crate::exec::Prec;
use crate::gen::strat;
use crate::gen::{CaseDesc, RectDesc, Shape};
use crate::runner::{CheckFn, FamilyPlan, Tier};

/// an exhaustively enumerated finite space of descriptors
pub struct Space {
    pub label: &'static str,
    pub size: u64,
    pub make: Box<dyn Fn(u64) -> Option<CaseDesc> + Sync>,
}

pub struct Spec {
    pub id: &'static str,
    pub rule: &'static str,
    pub design_ref: &'static str,
    pub families: Vec<FamilyPlan>,
    pub spaces: Vec<Space>,
    pub check: Box<CheckFn>,
    pub assumptions: Vec<&'static str>,
    pub want_c: bool,
}

pub const ASSUME_DOMAIN: &str = "inputs are drawn from the robust domains of DESIGN.md §3 (exact families: rectilinear bitmaps, octagonal lattice, their exact affine images, and `flat-oct` = octagonal-lattice operand against an axis-parallel operand with x scaled by 2^kx, kx <= 30, i.e. long flat shapes whose edges cross at angles down to 1e-9, and `fan` = triangles between consecutive lattice rays around one apex, shared between the operands, i.e. up to 26 edges meeting in one vertex, and `bars` = up to 28 horizontal bars against up to 28 vertical bars, i.e. about twelve times more proper crossings than input edges; inexact families: perturbed shared triangulation, float stars in general position with margin 1e-6*magnitude, self-crossing rings in general position); the inexact-and-degenerate region where the recorded findings K1-K4/N2 live is excluded by construction";
pub const ASSUME_ORACLE: &str = "oracle trusted base: robust::orient2d (exact orientation), the boundary tracer (cross-checked against the bitmap/triangle model on every generated operand), the witness construction (approximate placement, exact classification)";
pub const ASSUME_TOL: &str = "tolerance model: 0 on exact families (bitwise comparisons), 1e-9*max|coordinate| for f64 and 1e-4*max|coordinate| for f32 on inexact families; witnesses closer than the tolerance to an input edge are skipped and counted";

fn fam(name: &'static str, cases: u64, want_c: bool, f: impl Fn() -> proptest::strategy::BoxedStrategy<CaseDesc> + Sync + 'static) -> FamilyPlan {
    FamilyPlan { name, cases, strategy: Box::new(f), want_c }
}

/// the standard mix of robust-domain pair families; `scale` multiplies the per-family case counts
/// (base: rect 8, oct 8, aff 2, pert 2, gen 3, selfx 1 per 24)
/// `bars_k`: size of the crossing-heavy `bars` family (28 x 28 bars for the cheap oracles, 12 x 12 for the expensive ones)
pub fn pair_families(tier: Tier, total_quick: u64, total_thorough: u64, selfx: bool, want_c: bool, bars_k: u8) -> Vec<FamilyPlan> {
    let total = tier.pick(total_quick, total_thorough);
    let unit = total / 24;
    let (rw, ow) = match tier {
        Tier::Quick => (5usize, 3usize),
        Tier::Thorough => (8usize, 4usize),
    };
    let mut v = vec![
        fam("rect", unit * 8, want_c, move || strat::case(strat::rect_shape(rw, rw, false), false)),
        fam("oct", unit * 8, want_c, move || strat::case(strat::oct_shape(ow, ow), false)),
        fam("aff-rect", unit, want_c, move || strat::case(strat::rect_shape(rw, rw, false), true)),
        fam("aff-oct", unit, want_c, move || strat::case(strat::oct_shape(ow, ow), true)),
        fam("pert", unit * 2, want_c, move || strat::case(strat::pert_shape(ow, ow), false)),
        fam("gen", unit * 3, want_c, || strat::case(strat::gen_shape(), false)),
        fam("flat-oct", unit, want_c, move || strat::flat_case(ow, ow, 30)),
        fam("fan", unit, want_c, || strat::case(strat::fan_shape(), false)),
        fam("bars", (unit / 24).max(20), want_c, move || strat::case(strat::bars_shape(bars_k), false)),
    ];
    if selfx {
        v.push(fam("selfx", unit, false, || strat::case(strat::selfx_shape(), false)));
    }
    v
}

/// deeply nested results (C01, C02): concentric rings, see strat::rings_shape
pub fn with_rings(mut v: Vec<FamilyPlan>, tier: Tier) -> Vec<FamilyPlan> {
    v.push(fam("rings", tier.pick(300, 20_000), false, || strat::case(strat::rings_shape(), false)));
    v
}

/// all pairs of bitmaps on a w x h unit grid (merge flags fixed to true), index = a + b * 2^(w*h)
pub fn rect_pair_space(label: &'static str, w: usize, h: usize) -> Space {
    let n = w * h;
    let size = 1u64 << (2 * n);
    Space {
        label,
        size,
        make: Box::new(move |i| {
            let a: Vec<bool> = (0..n).map(|k| i >> k & 1 == 1).collect();
            let b: Vec<bool> = (0..n).map(|k| i >> (n + k) & 1 == 1).collect();
            Some(CaseDesc { shape: Shape::Rect(RectDesc { w, h, cells: [a, b, vec![false; n]], coords: None, merge: [true, true, true] }), aff: None, bits: i })
        }),
    }
}

pub fn spec(id: &str, tier: Tier) -> Option<Spec> {
    let assumptions = vec![ASSUME_DOMAIN, ASSUME_ORACLE, ASSUME_TOL];
    Some(match id {
        "C01" => Spec {
            id: "C01",
            rule: "operand pairs from the robust families (rect/oct/aff/pert/gen/selfx) x all 4 operations x one trait pairing chosen among those the part counts allow; oracle: exact even-odd membership at one witness per face of the input arrangement. Non-trivial: bounding boxes overlap (sweep path) AND witnesses exist in A-only and in (B-only or both) AND the operands have a shared boundary segment, a vertex-on-edge contact or a proper crossing. Distinct: hash of operand coordinate bits and auxiliary bits.",
            design_ref: "§5 C01",
            families: pair_families(tier, 120_000, 4_800_000, true, false, 28),
            spaces: match tier {
                Tier::Quick => vec![rect_pair_space("all bitmap pairs on the 2x2 unit grid", 2, 2), rect_pair_space("all bitmap pairs on the 3x2 unit grid", 3, 2)],
                Tier::Thorough => vec![rect_pair_space("all bitmap pairs on the 2x2 unit grid", 2, 2), rect_pair_space("all bitmap pairs on the 3x2 unit grid", 3, 2), rect_pair_space("all bitmap pairs on the 3x3 unit grid", 3, 3)],
            },
            check: Box::new(|c, o| result::c01(c, o, Prec::F64)),
            assumptions,
            want_c: false,
        },
        "C02" => Spec {
            id: "C02",
            rule: "same generation as C01 plus the `rings` family (concentric square frames on grids up to 24 x 24, results nested up to twelve levels deep); oracle is purely structural on the result's own arrangement: (i) no point in two polygons, (ii) no point in two holes of a polygon and every hole point inside that polygon's exterior, (iii) polygon-wise reading == even-odd over all result rings, (iv) no atomic boundary piece occurs twice, (v) every hole has an interior face. Non-trivial: some result has >= 2 rings or a hole, or the operands share a boundary segment.",
            design_ref: "§5 C02",
            families: with_rings(pair_families(tier, 120_000, 4_800_000, true, false, 28), tier),
            spaces: match tier {
                Tier::Quick => vec![rect_pair_space("all bitmap pairs on the 2x2 unit grid", 2, 2), rect_pair_space("all bitmap pairs on the 3x2 unit grid", 3, 2)],
                Tier::Thorough => vec![rect_pair_space("all bitmap pairs on the 3x2 unit grid", 3, 2), rect_pair_space("all bitmap pairs on the 3x3 unit grid", 3, 3)],
            },
            check: Box::new(|c, o| result::c02(c, o, Prec::F64)),
            assumptions,
            want_c: false,
        },
        "C04" => Spec {
            id: "C04",
            rule: "same generation as C01 without self-crossing rings; every result ring closed, >= 3 distinct vertices, non-zero area, counter-clockwise (bit-identical to the inputs on the disjoint-box path); every result edge on one input edge; every result vertex an input vertex or (exact families) exactly on two non-parallel input edges / (inexact) within tol*(1+1/sin) of their crossing. Non-trivial: some result contains a computed vertex (not an input vertex).",
            design_ref: "§5 C04",
            families: pair_families(tier, 96_000, 4_800_000, false, false, 28),
            spaces: vec![],
            check: Box::new(|c, o| result::c04(c, o, Prec::F64)),
            assumptions,
            want_c: false,
        },
        "C05" => Spec {
            id: "C05",
            rule: "same generation as C01; each call through a trait pairing chosen among those the part counts allow; the five results I, U, A-B, B-A, X of one pair are compared with each other only (no operand oracle): [I]+[A-B]+[B-A]=[U] and [X]=[A-B] or [B-A] at every witness, and the three area identities (exact equality on exact families, 1e-9 relative otherwise). Non-trivial: I, A-B and B-A are all non-empty at some witness.",
            design_ref: "§5 C05",
            families: pair_families(tier, 80_000, 4_000_000, true, false, 28),
            spaces: vec![],
            check: Box::new(|c, o| result::c05(c, o, Prec::F64)),
            assumptions,
            want_c: false,
        },
        "C13" => Spec {
            id: "C13",
            rule: "robust-domain operand pairs; fill_queue and subdivide are called directly for all 4 operations. Queue filling: 2 events per non-degenerate edge, mutual links, one left flag per pair, left first, each pair an edge of its operand, bounding boxes bitwise equal to the min/max over the operand's edge endpoints. Subdivision: links, left-before-right, non-zero length; planarity of all pairs of fully processed sub-segments by exact predicates (coincident twins must belong to different operands); every sub-segment on an edge of its operand; for complete sweeps (union, xor, and intersection/difference without early stop) the sub-segments on every input edge chain bitwise from one endpoint to the other and account for all sub-segments. Non-trivial: at least one division happened (more sub-segments than input edges).",
            design_ref: "§5 C13",
            families: pair_families(tier, 96_000, 4_800_000, true, false, 28),
            spaces: match tier {
                Tier::Quick => vec![rect_pair_space("all bitmap pairs on the 2x2 unit grid", 2, 2)],
                Tier::Thorough => vec![rect_pair_space("all bitmap pairs on the 3x2 unit grid", 3, 2)],
            },
            check: Box::new(stage::c13),
            assumptions,
            want_c: false,
        },
        "C14" => Spec {
            id: "C14",
            rule: "robust-domain operand pairs, all 4 operations, every processed left event (sub-segment): side points just below/above its midpoint (vertical: right/left), shrunk until the probe is clear of all other sub-segments and input edges (otherwise skipped and counted); exact even-odd membership of the side points in the input operands decides in_out, other_in_out, edge type, in_result and the transition direction (for coincident twins: exactly one carries the boundary, with the direction of the combined change); prev_in_result must be a processed, earlier, non-vertical left event in the result, and for result edges `region below is inside the result` must equal `recorded lower result edge exists and is OutIn`. Non-trivial: the case has a twin pair or a vertical sub-segment with a same-operand contact, and a sub-segment in the result.",
            design_ref: "§5 C14",
            families: pair_families(tier, 96_000, 4_800_000, true, false, 12),
            spaces: match tier {
                Tier::Quick => vec![rect_pair_space("all bitmap pairs on the 2x2 unit grid", 2, 2), rect_pair_space("all bitmap pairs on the 3x2 unit grid", 3, 2)],
                Tier::Thorough => vec![rect_pair_space("all bitmap pairs on the 3x2 unit grid", 3, 2), rect_pair_space("all bitmap pairs on the 3x3 unit grid", 3, 3)],
            },
            check: Box::new(stage::c14),
            assumptions,
            want_c: false,
        },
        "C15" => Spec {
            id: "C15",
            rule: "the event sets of robust-domain operand pairs before subdivision (as created by fill_queue) and after (processed events), one operation per case, capped at 160 events, plus generated stars of up to 12 edges around one vertex (both directions, verticals, both operands) and the four events of class-drawn integer segment pairs (T-contacts, common endpoints, collinear configurations, coordinates up to 2^25) and of float segment pairs in nearly degenerate position (a segment starting or ending within a few ulps of another one, or leaving a common endpoint in almost the same direction; 53-bit mantissas, magnitudes up to 2^30): all ordered pairs (never Equal, antisymmetric, agreement with the reference order x, y, right-before-left, lower segment first by exact orientation), all triples up to 60 events / 20000 sampled triples beyond (transitivity); compare_segments on all pairs of left events with overlapping x-extent (Equal iff identical, antisymmetric, Less iff below wherever the reference decides the vertical order of non-crossing segments). Non-trivial: the set contains two events at one point or a collinear pair.",
            design_ref: "§5 C15",
            families: pair_families(tier, 32_000, 1_600_000, false, false, 12),
            spaces: vec![],
            check: Box::new(stage::c15),
            assumptions,
            want_c: false,
        },
        "C06" => Spec {
            id: "C06",
            rule: "robust-domain operand pairs (no self-crossing rings). Swap: ring multisets of op(A,B) and op(B,A) for intersection/union/xor (bitwise on exact families; region fallback on inexact ones). Self: A-A and A xor A empty, A∩A and A∪A equal A as regions, and as ring multisets when no two rings of A touch. Empty operand: nine identities, results bit-identical to the inputs. Disjoint boxes: B translated beyond A's box, results bit-identical combinations of the inputs. Touching boxes (exact families): B translated so that its leftmost vertex sits on A's rightmost vertex; region oracle for all operations and ring multisets when the contact is a single vertex and no rings touch otherwise. Non-trivial: operands share a boundary segment, or A is non-empty (self laws).",
            design_ref: "§5 C06",
            families: pair_families(tier, 64_000, 3_200_000, true, false, 12),
            spaces: match tier {
                Tier::Quick => vec![rect_pair_space("all bitmap pairs on the 2x2 unit grid", 2, 2)],
                Tier::Thorough => vec![rect_pair_space("all bitmap pairs on the 3x2 unit grid", 3, 2)],
            },
            check: Box::new(|c, o| laws::c06(c, o, Prec::F64)),
            assumptions,
            want_c: false,
        },
        "C07" => Spec {
            id: "C07",
            rule: "robust-domain operand pairs; each operand is rewritten (every ring started at a random vertex, reversed independently, 0-2 vertices repeated consecutively, closing vertex possibly repeated, holes and parts rotated/reversed in order, zeros written as -0.0 in a quarter of the cases) and all 4 operations are run on both forms: exact families must give identical ring and polygon multisets, inexact families the same region (and the rewritten result must satisfy the membership oracle); when an operand is a single polygon all applicable trait implementations must return the identical MultiPolygon. Non-trivial: the rewriting changed the byte representation and the base case is C01-non-trivial.",
            design_ref: "§5 C07",
            families: pair_families(tier, 64_000, 3_200_000, true, false, 12),
            spaces: vec![],
            check: Box::new(|c, o| laws::c07(c, o, Prec::F64)),
            assumptions,
            want_c: false,
        },
        "C08" => Spec {
            id: "C08",
            rule: "robust-domain operand pairs, per case: one scaling of both operands by 2^k (k in [-40,40], no overflow/underflow) compared bit for bit with the scaled result for all 4 operations; one integer translation (|t| <= 1e6) on the integer-lattice families compared bit for bit; three of the seven non-identity axis symmetries, for which the result of the transformed operands must satisfy the membership oracle and equal the transformed result as a region. Non-trivial: base case C01-non-trivial and some result non-empty.",
            design_ref: "§5 C08",
            families: pair_families(tier, 48_000, 2_400_000, true, false, 12),
            spaces: vec![],
            check: Box::new(|c, o| laws::c08(c, o, Prec::F64)),
            assumptions,
            want_c: false,
        },
        "C09" => Spec {
            id: "C09",
            rule: "robust-domain operand pairs, per case: (1) a rectangle 4096 magnitudes away to the left/right/above/below added to A or to B: ring multiset of the result = ring multiset of the base result plus the part exactly when it contributes (union, xor, subject part under difference); (2) far parts added on the same side of both operands (to the right, so that intersection/difference cannot stop early, and above, left and below), which moves every bound derived from the operands' boxes; (3) the same near geometry through the bounding-box shortcut (B moved away) and through the sweep (a tall far part on A re-overlaps the boxes). Ring multisets compared bitwise; where the shortcut hands back rings of operands whose rings touch each other, and for self-crossing rings (read by the even-odd rule), regions are compared instead. Non-trivial: base case C01-non-trivial and the extra part changes the sweep's right bound, lies to the left, or flips the box test.",
            design_ref: "§5 C09",
            families: pair_families(tier, 128_000, 3_200_000, true, false, 12),
            spaces: vec![],
            check: Box::new(|c, o| laws::c09(c, o, Prec::F64)),
            assumptions,
            want_c: false,
        },
        "C10" => Spec {
            id: "C10",
            rule: "robust-domain operand pairs whose coordinates are (exact families) exactly representable in f32 with 22-bit coordinates and 11-bit differences, or (inexact families) rounded to f32 and re-validated with a single-precision general-position margin; cases that do not qualify are skipped and counted. Exact families: the f32 result must equal the f64 result coordinate for coordinate (all operations). All families: the oracles of C01, C02, C04, C05 and one of C06/C07/C08/C09 are re-run with the operation executed in f32 (tolerance 1e-4*magnitude on inexact families). In addition the pairwise intersection step is judged by C16's oracle in f32: integer segment pairs with |coordinate| <= 1024 (every product exact in f32; all clauses, including a class of long almost parallel crossing segments) and finite f32 float pairs. Non-trivial (operand pairs): C01-non-trivial and the result contains a computed vertex.",
            design_ref: "§5 C10",
            families: pair_families(tier, 64_000, 3_200_000, false, false, 12),
            spaces: vec![],
            check: Box::new(more::c10),
            assumptions,
            want_c: false,
        },
        "C11" => Spec {
            id: "C11",
            rule: "triples (A,B,C) of exact-arithmetic operands on a common lattice (rect, oct and their affine images, fans around one apex, flat-oct): every one of the 4 intermediate results A op B must be an acceptable operand (closed rings, no crossing or overlapping edges, structural validity), and all 16 (op,op') pairs x both nesting sides x third operand in {C, A, B} (96 forms) plus one depth-3 chain are judged by exact membership on the joint arrangement of A, B, C; float triples in general position with the independent third operand only (32 forms). Non-trivial: an intermediate result is non-empty and has a computed vertex or touching rings.",
            design_ref: "§5 C11",
            families: {
                let q = |a: u64, b: u64| tier.pick(a, b);
                vec![
                    fam("rect", q(3000, 400_000), true, || strat::case(strat::rect_shape(4, 4, false), false)),
                    fam("oct", q(3000, 400_000), true, || strat::case(strat::oct_shape(3, 3), false)),
                    fam("aff-oct", q(600, 100_000), true, || strat::case(strat::oct_shape(3, 3), true)),
                    fam("gen", q(1000, 60_000), true, || strat::case(strat::gen_shape(), false)),
                    fam("fan", q(600, 100_000), true, || strat::case(strat::fan_shape(), false)),
                    fam("flat-oct", q(400, 60_000), true, || strat::flat_case(3, 3, 30)),
                ]
            },
            spaces: vec![],
            check: Box::new(more::c11),
            assumptions,
            want_c: true,
        },
        "C12" => Spec {
            id: "C12",
            rule: "call histories over a pool of operands (A, B, C of a generated case, the empty operand, a separately allocated copy of A, A's first part, and three operands that are not valid polygon sets: A's and B's parts together, A's parts twice, B twice plus A, for which a panic counts as a result that must repeat): 20-60 calls (operation, two pool indices, placement in {this thread, fresh thread, this thread after the same call in f32}) derived from the case's auxiliary bits; after every call all operands are compared bit for bit with a snapshot and the result with the memoised first result for equal operands; for a fifth of the histories 8 threads then run all calls concurrently in different orders and every result is compared with the reference; the first 48 sweep-path cases of the process are recomputed at the very end of the run and must be bit-identical to what they returned at the start. Non-trivial: some call took the sweep path and returned at least one ring. Thread schedules are sampled, not controlled.",
            design_ref: "§5 C12",
            families: {
                let q = |a: u64, b: u64| tier.pick(a, b);
                vec![
                    fam("rect", q(1600, 30_000), true, || strat::case(strat::rect_shape(4, 4, false), false)),
                    fam("oct", q(1600, 30_000), true, || strat::case(strat::oct_shape(3, 3), false)),
                    fam("gen", q(800, 15_000), true, || strat::case(strat::gen_shape(), false)),
                    fam("fan", q(400, 10_000), true, || strat::case(strat::fan_shape(), false)),
                ]
            },
            spaces: vec![],
            check: Box::new(more::c12),
            assumptions,
            want_c: true,
        },
        _ => return None,
    })
}

pub const ALL_IDS: [&str; 18] = ["C01", "C02", "C03", "C04", "C05", "C06", "C07", "C08", "C09", "C10", "C11", "C12", "C13", "C14", "C15", "C16", "C17", "C18"];
