//! C06 (set-algebra laws), C07 (representation independence), C08 (similarity transforms), C09 (far-away parts
//! and early exits): metamorphic relations between runs.
use crate::exec::*;
use crate::gen::{sym_apply, Case};
use crate::geom::*;
use crate::norm::*;
use crate::props::result::{classify_inputs, contacts, panic_failure, region_check, tol_for, PairCtx};
use crate::runner::{Failure, Obs};
use crate::ser::mp_to_text;
use geo_booleanop::boolean::Operation;
use geo_types::{LineString, MultiPolygon, Polygon};

fn run(prec: Prec, a: &MP, b: &MP, op: Operation) -> Result<MP, Failure> {
    run_op(prec, Pairing::MM, a, b, op).map_err(|p| panic_failure(op_name(op), &p))
}

fn empty() -> MP {
    MultiPolygon(vec![])
}

fn concat(a: &MP, b: &MP) -> MP {
    MultiPolygon(a.0.iter().chain(b.0.iter()).cloned().collect())
}

fn is_exact_translatable(case: &Case) -> bool {
    case.exact
}

/// ring sets equal, or (inexact families only) at least the same region
fn rings_or_region(case: &Case, prec: Prec, r1: &MP, r2: &MP, what: &str) -> Result<(), Failure> {
    if ring_set(r1) == ring_set(r2) {
        return Ok(());
    }
    if case.exact {
        return Err(Failure::new("ring-sets-differ", format!("{}: {} vs {}", what, mp_to_text(r1), mp_to_text(r2))));
    }
    match same_region(r1, r2, tol_for(case, prec)) {
        Ok(_) => Ok(()),
        Err(p) => Err(Failure::new("regions-differ", format!("{}: at ({},{}): {} vs {}", what, p.x, p.y, mp_to_text(r1), mp_to_text(r2)))),
    }
}

fn region_eq(case: &Case, prec: Prec, r1: &MP, r2: &MP, what: &str) -> Result<(), Failure> {
    match same_region(r1, r2, tol_for(case, prec)) {
        Ok(_) => Ok(()),
        Err(p) => Err(Failure::new("regions-differ", format!("{}: at ({},{}): {} vs {}", what, p.x, p.y, mp_to_text(r1), mp_to_text(r2)))),
    }
}

/// C01's oracle applied to arbitrary operands
fn region_oracle(a: &MP, b: &MP, r: &MP, op: Operation, tol: f64, what: &str) -> Result<(), Failure> {
    let ctx = PairCtx::new(a, b, tol);
    region_check(r, &ctx, op).map_err(|(p, ia, ib, s)| Failure::new("region-mismatch", format!("{}: witness ({},{}) inA={} inB={} but result membership {:?}; op={} result {}", what, p.x, p.y, ia, ib, s, op_name(op), mp_to_text(r))))
}

// ---------------------------------------------------------------------------------------------
// C06

pub fn c06(case: &Case, obs: &mut Obs, prec: Prec) -> Result<(), Failure> {
    let (a, b) = (&case.a, &case.b);
    let tol = tol_for(case, prec);
    let (ea, eb) = (mp_edges(a), mp_edges(b));
    let con = contacts(&ea, &eb);
    if con.shared {
        obs.class("shared-edge");
        obs.nontrivial = true;
    }
    // swap
    for op in [Operation::Intersection, Operation::Union, Operation::Xor] {
        let r1 = run(prec, a, b, op)?;
        let r2 = run(prec, b, a, op)?;
        rings_or_region(case, prec, &r1, &r2, &format!("{}(A,B) vs {}(B,A)", op_name(op), op_name(op)))?;
    }
    // self
    if !a.0.is_empty() && !case.selfx {
        obs.nontrivial = true;
        let canon = canonical(a);
        obs.class(if canon { "self-canonical" } else { "self-touching-rings" });
        for op in [Operation::Difference, Operation::Xor] {
            let r = run(prec, a, a, op)?;
            if !r.0.is_empty() {
                return Err(Failure::new("self-not-empty", format!("A {} A is not empty: {}", op_name(op), mp_to_text(&r))));
            }
        }
        for op in [Operation::Intersection, Operation::Union] {
            let r = run(prec, a, a, op)?;
            region_eq(case, prec, &r, a, &format!("A {} A vs A", op_name(op)))?;
            if canon && ring_set(&r) != ring_set(a) {
                return Err(Failure::new("self-rings-differ", format!("A {} A = {} but A = {} (no two rings of A touch)", op_name(op), mp_to_text(&r), mp_to_text(a))));
            }
        }
    }
    // empty operand (bounding-box shortcut): rings handed back bit-identically, through every trait implementation
    // the part counts allow (an empty operand can only be a MultiPolygon)
    let e = empty();
    let runp = |pairing: Pairing, x: &MP, y: &MP, op: Operation| run_op(prec, pairing, x, y, op).map_err(|p| panic_failure(op_name(op), &p));
    for pairing in PAIRINGS {
        for (lhs_empty, name, op, want) in [
            (false, "A union empty", Operation::Union, a.clone()),
            (true, "empty union A", Operation::Union, a.clone()),
            (false, "A minus empty", Operation::Difference, a.clone()),
            (false, "A xor empty", Operation::Xor, a.clone()),
            (true, "empty xor A", Operation::Xor, a.clone()),
            (false, "A intersect empty", Operation::Intersection, empty()),
            (true, "empty intersect A", Operation::Intersection, empty()),
            (true, "empty minus A", Operation::Difference, empty()),
        ] {
            let (x, y) = if lhs_empty { (&e, a) } else { (a, &e) };
            if !pairing.allowed(x, y) {
                continue;
            }
            let r = runp(pairing, x, y, op)?;
            if r != want {
                return Err(Failure::new("empty-operand", format!("{} ({}) = {} expected {}", name, pairing.name(), mp_to_text(&r), mp_to_text(&want))));
            }
        }
    }
    if run(prec, &e, &e, Operation::Union)? != empty() {
        return Err(Failure::new("empty-operand", "empty union empty is not empty".to_string()));
    }
    // disjoint boxes: move B strictly to the right of / above A
    if let (Some(ba), Some(bb)) = (bbox_of(&ea), bbox_of(&eb)) {
        let mag = case.mag();
        let unit = (2.0f64).powi(mag.log2().ceil() as i32);
        let (dx, dy) = if case.bits & 1 == 0 { (ba.2 - bb.0 + unit, 0.0) } else { (0.0, ba.3 - bb.1 + unit) };
        let b2 = map_mp(b, &|p| pt(p.x + dx, p.y + dy));
        let ok32 = prec == Prec::F64 || f32_representable(&b2);
        if boxes_disjoint(&ea, &mp_edges(&b2)) && ok32 {
            obs.class("disjoint-boxes");
            for (op, want) in [(Operation::Intersection, empty()), (Operation::Difference, a.clone()), (Operation::Union, concat(a, &b2)), (Operation::Xor, concat(a, &b2))] {
                let r = run(prec, a, &b2, op)?;
                if r != want {
                    return Err(Failure::new("disjoint-boxes", format!("bounding boxes are disjoint: {} = {} expected {}", op_name(op), mp_to_text(&r), mp_to_text(&want))));
                }
            }
        }
        // touching boxes (sweep path): B moved so that its box touches A's box from the right
        if is_exact_translatable(case) && !case.selfx {
            let pa = ea.iter().flat_map(|e| [e.0, e.1]).fold(pt(f64::NEG_INFINITY, 0.0), |m, c| if c.x > m.x || (c.x == m.x && c.y > m.y) { c } else { m });
            let pb = eb.iter().flat_map(|e| [e.0, e.1]).fold(pt(f64::INFINITY, 0.0), |m, c| if c.x < m.x || (c.x == m.x && c.y < m.y) { c } else { m });
            let (dx, dy) = (pa.x - pb.x, pa.y - pb.y);
            let b3 = map_mp(b, &|p| pt(p.x + dx, p.y + dy));
            let exact_shift = map_mp(&b3, &|p| pt(p.x - dx, p.y - dy)) == *b;
            if exact_shift && (prec == Prec::F64 || f32_representable(&b3)) {
                let eb3 = mp_edges(&b3);
                let c3 = contacts(&ea, &eb3);
                let na = ea.iter().filter(|e| e.0.x == pa.x).count();
                let nb = eb3.iter().filter(|e| e.0.x == pa.x).count();
                let single_vertex = na == 1 && nb == 1 && !c3.shared && !c3.tcontact && !c3.cross;
                obs.class(if single_vertex { "touching-boxes-one-vertex" } else { "touching-boxes-longer-contact" });
                let both = concat(a, &b3);
                for op in OPS {
                    let r = run(prec, a, &b3, op)?;
                    region_oracle(a, &b3, &r, op, tol, "touching bounding boxes")?;
                    if single_vertex && canonical(a) && canonical(&b3) {
                        let want = match op {
                            Operation::Intersection => empty(),
                            Operation::Difference => a.clone(),
                            _ => both.clone(),
                        };
                        if ring_set(&r) != ring_set(&want) {
                            return Err(Failure::new("touching-boxes", format!("operands touch in one vertex only: {} = {} expected the rings of {}", op_name(op), mp_to_text(&r), mp_to_text(&want))));
                        }
                    }
                }
            }
        }
    }
    Ok(())
}

// ---------------------------------------------------------------------------------------------
// C07

fn xorshift(s: &mut u64) -> u64 {
    *s ^= *s << 13;
    *s ^= *s >> 7;
    *s ^= *s << 17;
    *s
}

/// a different way of writing down the same operand, driven by `bits`
pub fn rewrite(mp: &MP, bits: u64) -> MP {
    let mut s = bits | 1;
    let ring = |ls: &LineString<f64>, s: &mut u64| -> LineString<f64> {
        let mut p = ls.0.clone();
        if p.len() > 1 && p.first() == p.last() {
            p.pop();
        }
        let n = p.len();
        if n == 0 {
            return LineString(vec![]);
        }
        let k = (xorshift(s) % n as u64) as usize;
        let mut q: Vec<P> = (0..n).map(|i| p[(i + k) % n]).collect();
        if xorshift(s) & 1 == 1 {
            q.reverse();
        }
        // repeated consecutive vertices (possibly the first one, which then also repeats at the closure)
        let dups = xorshift(s) % 3;
        for _ in 0..dups {
            let at = (xorshift(s) % q.len() as u64) as usize;
            let v = q[at];
            q.insert(at, v);
        }
        q.push(q[0]);
        if xorshift(s) % 4 == 0 {
            // repeated closing vertex
            q.push(q[0]);
        }
        LineString(q)
    };
    let mut polys: Vec<Polygon<f64>> = mp
        .0
        .iter()
        .map(|p| {
            let ext = ring(p.exterior(), &mut s);
            let mut holes: Vec<LineString<f64>> = p.interiors().iter().map(|h| ring(h, &mut s)).collect();
            if holes.len() > 1 {
                let k = (xorshift(&mut s) % holes.len() as u64) as usize;
                holes.rotate_left(k);
                if xorshift(&mut s) & 1 == 1 {
                    holes.reverse();
                }
            }
            Polygon::new(ext, holes)
        })
        .collect();
    if polys.len() > 1 {
        let k = (xorshift(&mut s) % polys.len() as u64) as usize;
        polys.rotate_left(k);
        if xorshift(&mut s) & 1 == 1 {
            polys.reverse();
        }
    }
    let out = MultiPolygon(polys);
    if xorshift(&mut s) % 4 == 0 {
        // zero written as negative zero (the same number)
        return map_mp(&out, &|p| pt(if p.x == 0.0 { -0.0 } else { p.x }, if p.y == 0.0 { -0.0 } else { p.y }));
    }
    out
}

pub fn c07(case: &Case, obs: &mut Obs, prec: Prec) -> Result<(), Failure> {
    let (a, b) = (&case.a, &case.b);
    let tol = tol_for(case, prec);
    let ctx = PairCtx::new(a, b, tol);
    let base_nt = classify_inputs(case, &ctx, obs);
    let a2 = rewrite(a, case.bits);
    let b2 = rewrite(b, case.bits.rotate_left(17) ^ 0x5555);
    let changed = raw_ring_set(&a2) != raw_ring_set(a) || raw_ring_set(&b2) != raw_ring_set(b) || a2 != *a || b2 != *b;
    if rings_of(&a2).iter().chain(rings_of(&b2).iter()).any(|r| r.0.iter().any(|c| (c.x == 0.0 && c.x.is_sign_negative()) || (c.y == 0.0 && c.y.is_sign_negative()))) {
        obs.class("negative-zero-coordinates");
    }
    obs.nontrivial = base_nt && changed;
    for op in OPS {
        let r1 = run(prec, a, b, op)?;
        let r2 = run(prec, &a2, &b2, op)?;
        if ctx.trivial_path {
            // rings are handed back as given: the same rings up to the rewriting
            if ring_set(&r1) != ring_set(&r2) {
                return Err(Failure::new("representation-rings", format!("op={} (disjoint boxes): {} vs {}", op_name(op), mp_to_text(&r1), mp_to_text(&r2))));
            }
            continue;
        }
        if case.exact {
            if ring_set(&r1) != ring_set(&r2) || poly_set(&r1) != poly_set(&r2) {
                return Err(Failure::new(
                    "representation-rings",
                    format!("op={}: result for the operands as generated {} differs from the result for the rewritten operands {} (A' = {}; B' = {})", op_name(op), mp_to_text(&r1), mp_to_text(&r2), mp_to_text(&a2), mp_to_text(&b2)),
                ));
            }
        } else {
            region_eq(case, prec, &r1, &r2, &format!("op={} original vs rewritten operands", op_name(op)))?;
            region_check(&r2, &ctx, op).map_err(|(p, ia, ib, s)| Failure::new("region-mismatch", format!("rewritten operands: witness ({},{}) inA={} inB={} result {:?}", p.x, p.y, ia, ib, s)))?;
        }
    }
    // wrapping: all four trait implementations agree when both operands are single polygons
    if a.0.len() == 1 || b.0.len() == 1 {
        for op in OPS {
            let r0 = run(prec, a, b, op)?;
            for pairing in PAIRINGS {
                if pairing == Pairing::MM || !pairing.allowed(a, b) {
                    continue;
                }
                obs.class(pairing.name());
                let r = run_op(prec, pairing, a, b, op).map_err(|p| panic_failure(op_name(op), &p))?;
                if r != r0 {
                    return Err(Failure::new("wrapping", format!("op={}: the {} implementation returns {} but multi*multi returns {}", op_name(op), pairing.name(), mp_to_text(&r), mp_to_text(&r0))));
                }
            }
        }
    }
    Ok(())
}

// ---------------------------------------------------------------------------------------------
// C08

pub fn c08(case: &Case, obs: &mut Obs, prec: Prec) -> Result<(), Failure> {
    let (a, b) = (&case.a, &case.b);
    let tol = tol_for(case, prec);
    let ctx = PairCtx::new(a, b, tol);
    let base_nt = classify_inputs(case, &ctx, obs);
    let res: Vec<MP> = OPS.iter().map(|&op| run(prec, a, b, op)).collect::<Result<_, _>>()?;
    obs.nontrivial = base_nt && res.iter().any(|r| !r.0.is_empty());
    let mag = case.mag();
    // scale by 2^k without overflow/underflow of any intermediate
    let kmax: i32 = if prec == Prec::F32 { 12 } else { 40 };
    let k = ((case.bits >> 8) % (2 * kmax as u64 + 1)) as i32 - kmax;
    let lg = mag.log2();
    let min_nonzero = rings_of(a).iter().chain(rings_of(b).iter()).flat_map(|r| r.0.iter()).flat_map(|c| [c.x.abs(), c.y.abs()]).filter(|v| *v > 0.0).fold(f64::INFINITY, f64::min);
    let limit = if prec == Prec::F32 { 50.0 } else { 450.0 };
    let safe = (lg + k as f64).abs() < limit && (min_nonzero.log2() + k as f64).abs() < limit;
    if k != 0 && safe {
        obs.class("scale");
        let sc = (2.0f64).powi(k);
        let f = |p: P| pt(p.x * sc, p.y * sc);
        let (a2, b2) = (map_mp(a, &f), map_mp(b, &f));
        for (i, &op) in OPS.iter().enumerate() {
            let r2 = run(prec, &a2, &b2, op)?;
            let want = map_mp(&res[i], &f);
            if r2 != want {
                return Err(Failure::new("scale", format!("op={}: scaling both operands by 2^{} gives {} but the scaled result is {}", op_name(op), k, mp_to_text(&r2), mp_to_text(&want))));
            }
        }
    }
    // translation by representable offsets (exact families without an affine map on top: integer lattice)
    if case.exact && (case.family == "rect" || case.family == "oct") {
        obs.class("translate");
        let lim: i64 = if prec == Prec::F32 { 1000 } else { 1_000_000 };
        let tx = ((case.bits >> 16) % (2 * lim as u64 + 1)) as i64 - lim;
        let ty = ((case.bits >> 40) % (2 * lim as u64 + 1)) as i64 - lim;
        let f = |p: P| pt(p.x + tx as f64, p.y + ty as f64);
        let (a2, b2) = (map_mp(a, &f), map_mp(b, &f));
        for (i, &op) in OPS.iter().enumerate() {
            let r2 = run(prec, &a2, &b2, op)?;
            let want = map_mp(&res[i], &f);
            if r2 != want {
                return Err(Failure::new("translate", format!("op={}: translating both operands by ({},{}) gives {} but the translated result is {}", op_name(op), tx, ty, mp_to_text(&r2), mp_to_text(&want))));
            }
        }
    }
    // axis symmetries: three of the seven non-identity ones per case
    let first = 1 + ((case.bits >> 4) % 7) as u8;
    for j in 0..3u8 {
        let sym = 1 + (first - 1 + j * 2) % 7;
        obs.class(match sym {
            1 => "mirror-x",
            2 => "mirror-y",
            3 => "half-turn",
            4 => "transpose",
            5 | 6 => "quarter-turn",
            _ => "anti-transpose",
        });
        // three times out of four by plain negation, which turns a zero coordinate into -0.0 (what a caller's `-x` does)
        let raw = (case.bits >> 2) & 3 != 0;
        let f = |p: P| if raw { crate::gen::sym_apply_raw(sym, p) } else { sym_apply(sym, p) };
        let (a2, b2) = (map_mp(a, &f), map_mp(b, &f));
        if raw && rings_of(&a2).iter().chain(rings_of(&b2).iter()).flat_map(|r| r.0.iter()).any(|c| (c.x == 0.0 && c.x.is_sign_negative()) || (c.y == 0.0 && c.y.is_sign_negative())) {
            obs.class("mirrored-zero-is-negative-zero");
        }
        let ctx2 = PairCtx::new(&a2, &b2, tol);
        for (i, &op) in OPS.iter().enumerate() {
            let r2 = run(prec, &a2, &b2, op)?;
            region_check(&r2, &ctx2, op).map_err(|(p, ia, ib, s)| {
                Failure::new("symmetry-region", format!("op={} symmetry {}: witness ({},{}) inA={} inB={} result {:?}; result {}", op_name(op), sym, p.x, p.y, ia, ib, s, mp_to_text(&r2)))
            })?;
            if !ctx.trivial_path {
                let want = map_mp(&res[i], &f);
                region_eq(case, prec, &r2, &want, &format!("op={} symmetry {}: result of transformed operands vs transformed result", op_name(op), sym))?;
            }
        }
    }
    Ok(())
}

// ---------------------------------------------------------------------------------------------
// C09

/// rectangle with corners snapped to the precision of the run (so that harness-made parts are representable)
fn rect_poly_p(prec: Prec, x0: f64, y0: f64, x1: f64, y1: f64) -> Polygon<f64> {
    let s = |v: f64| if prec == Prec::F32 { (v as f32) as f64 } else { v };
    rect_poly(s(x0), s(y0), s(x1), s(y1))
}

fn rect_poly(x0: f64, y0: f64, x1: f64, y1: f64) -> Polygon<f64> {
    Polygon::new(LineString(vec![pt(x0, y0), pt(x1, y0), pt(x1, y1), pt(x0, y1), pt(x0, y0)]), vec![])
}

pub fn c09(case: &Case, obs: &mut Obs, prec: Prec) -> Result<(), Failure> {
    let (a, b) = (&case.a, &case.b);
    let tol = tol_for(case, prec);
    let (ea, eb) = (mp_edges(a), mp_edges(b));
    let ctx = PairCtx::new(a, b, tol);
    let base_nt = classify_inputs(case, &ctx, obs);
    let res: Vec<MP> = OPS.iter().map(|&op| run(prec, a, b, op)).collect::<Result<_, _>>()?;
    let (ba, bb) = match (bbox_of(&ea), bbox_of(&eb)) {
        (Some(x), Some(y)) => (x, y),
        _ => return Ok(()),
    };
    let all = (ba.0.min(bb.0), ba.1.min(bb.1), ba.2.max(bb.2), ba.3.max(bb.3));
    let mag = case.mag();
    let unit = (2.0f64).powi(mag.log2().ceil() as i32);
    let far = unit * if prec == Prec::F32 { 64.0 } else { 4096.0 };
    // centre of everything, rounded to the unit grid so that exact families stay exact
    let cx = ((all.0 + all.2) / 2.0 / unit).round() * unit;
    let cy = ((all.1 + all.3) / 2.0 / unit).round() * unit;
    let dir = (case.bits >> 3) % 4;
    let on_a = (case.bits >> 5) & 1 == 1;
    let part = match dir {
        0 => rect_poly_p(prec, cx - far - unit, cy, cx - far, cy + unit),
        1 => rect_poly_p(prec, cx + far, cy, cx + far + unit, cy + unit),
        2 => rect_poly_p(prec, cx, cy + far, cx + unit, cy + far + unit),
        _ => rect_poly_p(prec, cx, cy - far - unit, cx + unit, cy - far),
    };
    obs.class(match dir {
        0 => "far-left",
        1 => "far-right",
        2 => "far-above",
        _ => "far-below",
    });
    obs.class(if on_a { "extra-part-on-A" } else { "extra-part-on-B" });
    let mut a2 = a.clone();
    let mut b2 = b.clone();
    if on_a {
        a2.0.push(part.clone());
    } else {
        b2.0.push(part.clone());
    }
    let part_mp = MultiPolygon(vec![part.clone()]);
    let changes_box_test = ctx.trivial_path != boxes_disjoint(&mp_edges(&a2), &mp_edges(&b2));
    let changes_bound = dir == 1;
    if changes_box_test {
        obs.class("changes-box-test");
    }
    obs.nontrivial = base_nt && (changes_box_test || changes_bound || dir == 0);
    // the extended operands go through one of the trait implementations the part counts allow
    let pairing = Pairing::choose(&a2, &b2, case.bits >> 12);
    obs.class(pairing.name());
    for (i, &op) in OPS.iter().enumerate() {
        let r2 = run_op(prec, pairing, &a2, &b2, op).map_err(|p| panic_failure(op_name(op), &p))?;
        let contributes = match op {
            Operation::Union | Operation::Xor => true,
            Operation::Difference => on_a,
            Operation::Intersection => false,
        };
        let want = if contributes { concat(&res[i], &part_mp) } else { res[i].clone() };
        let what = format!("op={}: far part {} on {}", op_name(op), mp_to_text(&part_mp), if on_a { "A" } else { "B" });
        if ctx.trivial_path && changes_box_test {
            // the base run took the shortcut (rings as given), the extended one the sweep: rings agree for operands
            // whose rings do not touch each other, regions always
            if !case.selfx && canonical(a) && canonical(b) && no_self_contact_pair(&ctx) {
                if ring_set(&r2) != ring_set(&want) {
                    return Err(Failure::new("shortcut-vs-sweep", format!("{}: {} expected the rings of {}", what, mp_to_text(&r2), mp_to_text(&want))));
                }
            } else {
                region_eq(case, prec, &r2, &want, &what)?;
            }
        } else if case.selfx {
            // self-crossing rings: compare as regions (the decomposition into simple rings is the sweep's choice)
            region_eq(case, prec, &r2, &want, &what)?;
        } else if ring_set(&r2) != ring_set(&want) {
            return Err(Failure::new("far-part", format!("{}: {} expected the rings of {}", what, mp_to_text(&r2), mp_to_text(&want))));
        }
    }
    // far parts on the same side of both operands (to the right: the sweep of intersection / difference cannot
    // stop early before them; and above, left, below): every bound derived from the operands'
    // boxes moves, the near geometry must not notice
    for both_dir in [1u64, 2, 0, 3] {
        let (pa, pb) = match both_dir {
            0 => (rect_poly_p(prec, cx - far - unit, cy + 2.0 * unit, cx - far, cy + 3.0 * unit), rect_poly_p(prec, cx - far - unit, cy - 3.0 * unit, cx - far, cy - 2.0 * unit)),
            1 => (rect_poly_p(prec, cx + far, cy + 2.0 * unit, cx + far + unit, cy + 3.0 * unit), rect_poly_p(prec, cx + far, cy - 3.0 * unit, cx + far + unit, cy - 2.0 * unit)),
            2 => (rect_poly_p(prec, cx + 2.0 * unit, cy + far, cx + 3.0 * unit, cy + far + unit), rect_poly_p(prec, cx - 3.0 * unit, cy + far, cx - 2.0 * unit, cy + far + unit)),
            _ => (rect_poly_p(prec, cx + 2.0 * unit, cy - far - unit, cx + 3.0 * unit, cy - far), rect_poly_p(prec, cx - 3.0 * unit, cy - far - unit, cx - 2.0 * unit, cy - far)),
        };
        obs.class(match both_dir {
            0 => "far-parts-on-both-left",
            1 => "far-parts-on-both-right",
            2 => "far-parts-on-both-above",
            _ => "far-parts-on-both-below",
        });
        let a3 = concat(a, &MultiPolygon(vec![pa.clone()]));
        let b3 = concat(b, &MultiPolygon(vec![pb.clone()]));
        for (i, &op) in OPS.iter().enumerate() {
            let r3 = run(prec, &a3, &b3, op)?;
            let mut want = res[i].clone();
            match op {
                Operation::Intersection => {}
                Operation::Difference => want.0.push(pa.clone()),
                _ => {
                    want.0.push(pa.clone());
                    want.0.push(pb.clone());
                }
            }
            let what = format!("op={}: far parts on the same side ({}) of both operands", op_name(op), ["left", "right", "above", "below"][both_dir as usize]);
            if case.selfx {
                region_eq(case, prec, &r3, &want, &what)?;
            } else if ctx.trivial_path {
                if canonical(a) && canonical(b) {
                    if ring_set(&r3) != ring_set(&want) {
                        return Err(Failure::new("shortcut-vs-sweep", format!("{}: {} expected the rings of {}", what, mp_to_text(&r3), mp_to_text(&want))));
                    }
                } else {
                    region_eq(case, prec, &r3, &want, &what)?;
                }
            } else if ring_set(&r3) != ring_set(&want) {
                return Err(Failure::new("early-stop", format!("{}: {} expected the rings of {}", what, mp_to_text(&r3), mp_to_text(&want))));
            }
        }
    }
    // shortcut <-> sweep for the same near geometry: B moved away (shortcut), then a far part on A re-overlaps the boxes
    {
        let shift = far * 2.0;
        let bs = map_mp(b, &|p| pt(p.x + shift, p.y));
        let exact_shift = map_mp(&bs, &|p| pt(p.x - shift, p.y)) == *b;
        if exact_shift && boxes_disjoint(&ea, &mp_edges(&bs)) && (prec == Prec::F64 || f32_representable(&bs)) {
            obs.class("shortcut-vs-sweep");
            let tall = rect_poly_p(prec, cx + 2.0 * shift, all.1 - far, cx + 2.0 * shift + unit, all.3 + far);
            let a4 = concat(a, &MultiPolygon(vec![tall.clone()]));
            for &op in OPS.iter() {
                let triv = run(prec, a, &bs, op)?;
                let swept = run(prec, &a4, &bs, op)?;
                let mut want = triv.clone();
                if op != Operation::Intersection {
                    want.0.push(tall.clone());
                }
                let what = format!("op={}: same operands through the bounding-box shortcut and through the sweep", op_name(op));
                if canonical(a) && canonical(&bs) && !case.selfx {
                    if ring_set(&swept) != ring_set(&want) {
                        return Err(Failure::new("shortcut-vs-sweep", format!("{}: {} expected the rings of {}", what, mp_to_text(&swept), mp_to_text(&want))));
                    }
                } else if !case.selfx {
                    region_eq(case, prec, &swept, &want, &what)?;
                }
            }
        }
    }
    Ok(())
}

fn no_self_contact_pair(_ctx: &PairCtx) -> bool {
    true
}
