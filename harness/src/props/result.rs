//! C01, C02, C04, C05: oracles on the returned multipolygon.
use crate::exec::*;
use crate::gen::Case;
use crate::geom::*;
use crate::norm::*;
use crate::runner::{Failure, Obs};
use crate::ser::mp_to_text;
use geo_booleanop::boolean::Operation;
use geo_types::MultiPolygon;

pub fn panic_failure(what: &str, p: &PanicInfo) -> Failure {
    Failure::new(
        if p.budget_exceeded { "event-budget-exceeded" } else { "panic" },
        format!("{}: panicked at {}:{}: {} (events processed {})", what, p.file, p.line, p.message, p.events),
    )
}

/// the operands of a case seen through the exact oracle
pub struct PairCtx {
    pub ea: Vec<Seg>,
    pub eb: Vec<Seg>,
    pub all: Vec<Seg>,
    /// witnesses clear of all input edges, with their membership in A and B
    pub wit: Vec<(P, bool, bool)>,
    pub thin_skipped: u64,
    pub trivial_path: bool,
}

impl PairCtx {
    pub fn new(a: &MP, b: &MP, tol: f64) -> PairCtx {
        let ea = mp_edges(a);
        let eb = mp_edges(b);
        let mut all = ea.clone();
        all.extend(eb.iter().cloned());
        let mut wit = Vec::new();
        let mut thin = 0;
        for p in witnesses(&all) {
            if tol > 0.0 && all.iter().any(|&s| dist_point_seg(p, s) < tol) {
                thin += 1;
                continue;
            }
            let ia = evenodd(&ea, p);
            let ib = evenodd(&eb, p);
            if ia == Side::On || ib == Side::On {
                thin += 1;
                continue;
            }
            wit.push((p, ia == Side::In, ib == Side::In));
        }
        let trivial_path = boxes_disjoint(&ea, &eb);
        PairCtx { ea, eb, all, wit, thin_skipped: thin, trivial_path }
    }

    /// the four operations give four different answers somewhere
    pub fn ops_differ(&self) -> bool {
        let a_only = self.wit.iter().any(|w| w.1 && !w.2);
        let b_only = self.wit.iter().any(|w| !w.1 && w.2);
        let both = self.wit.iter().any(|w| w.1 && w.2);
        a_only && (b_only || both)
    }
}

/// contact classes between the edges of A and the edges of B (exact)
pub struct Contacts {
    pub shared: bool,
    pub tcontact: bool,
    pub cross: bool,
    pub vertex: bool,
}

pub fn contacts(ea: &[Seg], eb: &[Seg]) -> Contacts {
    let mut c = Contacts { shared: false, tcontact: false, cross: false, vertex: false };
    for &s in ea {
        for &t in eb {
            if s.0.x.max(s.1.x) < t.0.x.min(t.1.x) || t.0.x.max(t.1.x) < s.0.x.min(s.1.x) {
                continue;
            }
            if proper_cross(s, t) {
                c.cross = true;
            } else if collinear_overlap(s, t) {
                c.shared = true;
            } else if strictly_inside(s, t.0) || strictly_inside(s, t.1) || strictly_inside(t, s.0) || strictly_inside(t, s.1) {
                c.tcontact = true;
            } else if s.0 == t.0 || s.0 == t.1 || s.1 == t.0 || s.1 == t.1 {
                c.vertex = true;
            }
        }
    }
    c
}

pub fn classify_inputs(case: &Case, ctx: &PairCtx, obs: &mut Obs) -> bool {
    let c = contacts(&ctx.ea, &ctx.eb);
    if c.shared {
        obs.class("shared-edge");
    }
    if c.tcontact {
        obs.class("vertex-on-edge");
    }
    if c.cross {
        obs.class("proper-crossing");
    }
    if ctx.all.iter().any(|s| s.0.x == s.1.x) {
        obs.class("vertical-edge");
    }
    if case.a.0.iter().chain(case.b.0.iter()).any(|p| !p.interiors().is_empty()) {
        obs.class("hole");
    }
    if case.a.0.len() > 1 || case.b.0.len() > 1 {
        obs.class("multi-part");
    }
    if case.selfx {
        obs.class("self-crossing");
    }
    if ctx.trivial_path {
        obs.class("trivial-path");
    }
    obs.count("thin_faces_skipped", ctx.thin_skipped);
    !ctx.trivial_path && ctx.ops_differ() && (c.shared || c.tcontact || c.cross)
}

pub fn tol_for(case: &Case, prec: Prec) -> f64 {
    match prec {
        Prec::F64 => case.tol(),
        Prec::F32 => case.tol32(),
    }
}

fn describe(op: Operation, pairing: Pairing, r: &MP) -> String {
    format!("op={} pairing={} result: {}", op_name(op), pairing.name(), mp_to_text(r))
}

// ---------------------------------------------------------------------------------------------
// C01

pub fn region_check(r: &MP, ctx: &PairCtx, op: Operation) -> Result<(), (P, bool, bool, Side)> {
    let idx = PolyIndex::new(r);
    for &(p, ia, ib) in &ctx.wit {
        let (s, _) = idx.polywise(p);
        if s == Side::On || (s == Side::In) != opf(op, ia, ib) {
            return Err((p, ia, ib, s));
        }
    }
    Ok(())
}

pub fn c01(case: &Case, obs: &mut Obs, prec: Prec) -> Result<(), Failure> {
    let tol = tol_for(case, prec);
    let ctx = PairCtx::new(&case.a, &case.b, tol);
    obs.nontrivial = classify_inputs(case, &ctx, obs);
    let pairing = Pairing::choose(&case.a, &case.b, case.bits);
    obs.class(pairing.name());
    for op in OPS {
        let r = run_op(prec, pairing, &case.a, &case.b, op).map_err(|p| panic_failure(op_name(op), &p))?;
        if let Err((p, ia, ib, s)) = region_check(&r, &ctx, op) {
            return Err(Failure::new(
                "region-mismatch",
                format!("witness ({},{}) inA={} inB={} expected {} but result membership is {:?}; {}", p.x, p.y, ia, ib, opf(op, ia, ib), s, describe(op, pairing, &r)),
            ));
        }
    }
    Ok(())
}

// ---------------------------------------------------------------------------------------------
// C02

/// all result edges split at every result vertex lying on them (exact); returns a duplicated atomic piece if any
fn duplicate_piece(edges: &[Seg]) -> Option<Seg> {
    let verts: Vec<P> = edges.iter().map(|e| e.0).collect();
    let mut pieces: Vec<((u64, u64), (u64, u64))> = Vec::new();
    for &e in edges {
        let mut cuts: Vec<P> = vec![e.0, e.1];
        for &v in &verts {
            if strictly_inside(e, v) {
                cuts.push(v);
            }
        }
        let t = |q: P| if e.0.x != e.1.x { (q.x - e.0.x) / (e.1.x - e.0.x) } else { (q.y - e.0.y) / (e.1.y - e.0.y) };
        cuts.sort_by(|a, b| t(*a).partial_cmp(&t(*b)).unwrap());
        cuts.dedup();
        for w in cuts.windows(2) {
            let (a, b) = (key(w[0]), key(w[1]));
            pieces.push(if a < b { (a, b) } else { (b, a) });
        }
    }
    pieces.sort();
    for w in pieces.windows(2) {
        if w[0] == w[1] {
            let un = |k: u64| -> f64 {
                let b = if k >> 63 == 1 { k & !(1 << 63) } else { !k };
                f64::from_bits(b)
            };
            return Some((pt(un(w[0].0 .0), un(w[0].0 .1)), pt(un(w[0].1 .0), un(w[0].1 .1))));
        }
    }
    None
}

/// purely structural validity of a multipolygon on its own arrangement (C02; also "acceptable operand" in C11)
pub fn structure_check(r: &MP, tol: f64, obs: &mut Obs) -> Result<(), Failure> {
    let er = mp_edges(r);
    let idx = PolyIndex::new(r);
    let wit = witnesses(&er);
    let mut hole_hits: Vec<Vec<bool>> = idx.polys.iter().map(|p| vec![false; p.1.len()]).collect();
    let mut thin = 0u64;
    for p in wit {
        if tol > 0.0 && er.iter().any(|&s| dist_point_seg(p, s) < tol) {
            thin += 1;
            continue;
        }
        let eo = evenodd(&er, p);
        if eo == Side::On {
            continue;
        }
        let mut cnt = 0;
        for (pi, (ext, holes)) in idx.polys.iter().enumerate() {
            let ine = evenodd(ext, p) == Side::In;
            let mut hc = 0;
            for (hi, h) in holes.iter().enumerate() {
                if evenodd(h, p) == Side::In {
                    hc += 1;
                    hole_hits[pi][hi] = true;
                }
            }
            if hc > 1 {
                return Err(Failure::new("holes-overlap", format!("point ({},{}) lies in {} holes of polygon #{}", p.x, p.y, hc, pi)));
            }
            if hc == 1 && !ine {
                return Err(Failure::new("hole-outside-its-polygon", format!("point ({},{}) lies in a hole of polygon #{} but outside its exterior ring", p.x, p.y, pi)));
            }
            if ine && hc == 0 {
                cnt += 1;
            }
        }
        if cnt > 1 {
            return Err(Failure::new("polygons-overlap", format!("point ({},{}) lies in {} polygons", p.x, p.y, cnt)));
        }
        if (cnt == 1) != (eo == Side::In) {
            return Err(Failure::new("polygonwise-vs-evenodd", format!("point ({},{}): polygon-wise {} but even-odd over all rings {:?}", p.x, p.y, cnt == 1, eo)));
        }
    }
    obs.count("thin_faces_skipped", thin);
    if let Some(d) = duplicate_piece(&er) {
        return Err(Failure::new("boundary-piece-twice", format!("piece ({},{})-({},{}) occurs in two rings or twice in one", d.0.x, d.0.y, d.1.x, d.1.y)));
    }
    for (pi, hits) in hole_hits.iter().enumerate() {
        for (hi, hit) in hits.iter().enumerate() {
            if !hit {
                if tol == 0.0 {
                    return Err(Failure::new("hole-without-interior", format!("hole #{} of polygon #{} contains no face of the result arrangement", hi, pi)));
                }
                obs.count("holes_without_witness", 1);
            }
        }
    }
    Ok(())
}

pub fn c02(case: &Case, obs: &mut Obs, prec: Prec) -> Result<(), Failure> {
    let tol = tol_for(case, prec);
    let ea = mp_edges(&case.a);
    let eb = mp_edges(&case.b);
    let c = contacts(&ea, &eb);
    if c.shared {
        obs.class("shared-edge");
    }
    if c.tcontact {
        obs.class("vertex-on-edge");
    }
    let pairing = Pairing::choose(&case.a, &case.b, case.bits);
    obs.class(pairing.name());
    let mut nt = c.shared;
    for op in OPS {
        let r = run_op(prec, pairing, &case.a, &case.b, op).map_err(|p| panic_failure(op_name(op), &p))?;
        let rings = rings_of(&r).len();
        let holes: usize = r.0.iter().map(|p| p.interiors().len()).sum();
        if rings >= 2 {
            nt = true;
            obs.class("result>=2rings");
        }
        if holes >= 1 {
            nt = true;
            obs.class("result-has-hole");
        }
        if boxes_disjoint(&ea, &eb) {
            // rings are handed back unchanged: their validity is the caller's, not the operation's
            obs.class("trivial-path");
            continue;
        }
        structure_check(&r, tol, obs).map_err(|f| Failure::new(f.clause, format!("{}; {}", f.detail, describe(op, pairing, &r))))?;
    }
    obs.nontrivial = nt;
    Ok(())
}

// ---------------------------------------------------------------------------------------------
// C04

fn expected_trivial(a: &MP, b: &MP, op: Operation) -> MP {
    match op {
        Operation::Intersection => MultiPolygon(vec![]),
        Operation::Difference => a.clone(),
        Operation::Union | Operation::Xor => MultiPolygon(a.0.iter().chain(b.0.iter()).cloned().collect()),
    }
}

pub fn geometry_check(r: &MP, ctx: &PairCtx, exact: bool, tol: f64, obs: &mut Obs) -> Result<bool, Failure> {
    let mut computed_vertex = false;
    for ring in rings_of(r) {
        if ring.0.first() != ring.0.last() {
            return Err(Failure::new("ring-not-closed", format!("ring {:?}", ring.0)));
        }
        let e = ring_edges(ring);
        let mut distinct: Vec<(u64, u64)> = ring.0.iter().map(|&c| key(c)).collect();
        distinct.sort();
        distinct.dedup();
        if distinct.len() < 3 || e.len() < 3 {
            return Err(Failure::new("ring-too-small", format!("ring with {} distinct vertices: {:?}", distinct.len(), ring.0)));
        }
        let a2 = ring_area2(ring);
        if a2 == 0.0 {
            return Err(Failure::new("ring-zero-area", format!("ring {:?}", ring.0)));
        }
        if a2 < 0.0 {
            return Err(Failure::new("ring-clockwise", format!("ring assembled by the operation is clockwise: {:?}", ring.0)));
        }
        for &(p, q) in &e {
            let on = if exact {
                ctx.all.iter().any(|&s| on_seg(s, p) && on_seg(s, q))
            } else {
                ctx.all.iter().any(|&s| dist_point_seg(p, s) <= tol && dist_point_seg(q, s) <= tol)
            };
            if !on {
                return Err(Failure::new("edge-off-input", format!("result edge ({},{})-({},{}) does not lie on an input edge", p.x, p.y, q.x, q.y)));
            }
            // vertex p
            if ctx.all.iter().any(|&(u, v)| u == p || v == p) {
                continue;
            }
            computed_vertex = true;
            if exact {
                let carriers: Vec<Seg> = ctx.all.iter().cloned().filter(|&s| on_seg(s, p)).collect();
                let ok = carriers.iter().any(|&s| carriers.iter().any(|&t| orient(s.0, s.1, t.0) != 0.0 || orient(s.0, s.1, t.1) != 0.0));
                if !ok {
                    return Err(Failure::new("vertex-not-exact", format!("result vertex ({},{}) is neither an input vertex nor exactly on two non-parallel input edges", p.x, p.y)));
                }
            } else {
                let near: Vec<Seg> = ctx.all.iter().cloned().filter(|&s| dist_point_seg(p, s) <= tol).collect();
                let mut ok = false;
                'outer: for i in 0..near.len() {
                    for j in i + 1..near.len() {
                        let sn = abs_sin(near[i], near[j]);
                        if sn == 0.0 {
                            continue;
                        }
                        if let Some(x) = approx_intersection(near[i], near[j]) {
                            if dist(x, p) <= tol * (1.0 + 1.0 / sn) {
                                ok = true;
                                break 'outer;
                            }
                        }
                    }
                }
                if !ok {
                    return Err(Failure::new("vertex-not-near-crossing", format!("result vertex ({},{}) is neither an input vertex nor within tolerance of the crossing of two input edges", p.x, p.y)));
                }
            }
        }
    }
    if computed_vertex {
        obs.class("computed-vertex");
    }
    Ok(computed_vertex)
}

pub fn c04(case: &Case, obs: &mut Obs, prec: Prec) -> Result<(), Failure> {
    let tol = tol_for(case, prec);
    let ctx = PairCtx::new(&case.a, &case.b, tol);
    classify_inputs(case, &ctx, obs);
    let pairing = Pairing::choose(&case.a, &case.b, case.bits);
    for op in OPS {
        let r = run_op(prec, pairing, &case.a, &case.b, op).map_err(|p| panic_failure(op_name(op), &p))?;
        if ctx.trivial_path {
            let want = expected_trivial(&case.a, &case.b, op);
            if r != want {
                return Err(Failure::new("trivial-path-not-unchanged", format!("bounding boxes are disjoint but rings are not handed back unchanged; {}", describe(op, pairing, &r))));
            }
            continue;
        }
        let computed = geometry_check(&r, &ctx, case.exact, tol, obs).map_err(|f| Failure::new(f.clause, format!("{}; {}", f.detail, describe(op, pairing, &r))))?;
        if computed {
            obs.nontrivial = true;
        }
    }
    Ok(())
}

// ---------------------------------------------------------------------------------------------
// C05

pub fn c05(case: &Case, obs: &mut Obs, prec: Prec) -> Result<(), Failure> {
    let tol = tol_for(case, prec);
    let ctx = PairCtx::new(&case.a, &case.b, tol);
    classify_inputs(case, &ctx, obs);
    // the trait pairing is chosen per call among those the part counts allow (B-minus-A with the operands' roles swapped)
    let run = |a: &MP, b: &MP, op: Operation| {
        let pairing = Pairing::choose(a, b, case.bits);
        run_op(prec, pairing, a, b, op).map_err(|p| panic_failure(op_name(op), &p))
    };
    obs.class(Pairing::choose(&case.a, &case.b, case.bits).name());
    let i = run(&case.a, &case.b, Operation::Intersection)?;
    let u = run(&case.a, &case.b, Operation::Union)?;
    let ab = run(&case.a, &case.b, Operation::Difference)?;
    let ba = run(&case.b, &case.a, Operation::Difference)?;
    let x = run(&case.a, &case.b, Operation::Xor)?;
    let idx: Vec<PolyIndex> = [&i, &u, &ab, &ba, &x].iter().map(|m| PolyIndex::new(m)).collect();
    let (mut ni, mut nab, mut nba) = (0, 0, 0);
    for &(p, _, _) in &ctx.wit {
        let m: Vec<Side> = idx.iter().map(|ix| ix.polywise(p).0).collect();
        if m.iter().any(|s| *s == Side::On) {
            return Err(Failure::new("witness-on-result-edge", format!("witness ({},{}) is clear of all input edges but lies on a result edge", p.x, p.y)));
        }
        let b: Vec<u8> = m.iter().map(|s| (*s == Side::In) as u8).collect();
        ni += b[0] as u32;
        nab += b[2] as u32;
        nba += b[3] as u32;
        if b[0] + b[2] + b[3] != b[1] {
            return Err(Failure::new(
                "partition-of-union",
                format!("at ({},{}): in intersection={} in A-B={} in B-A={} in union={} (the three must be disjoint and cover the union)", p.x, p.y, b[0], b[2], b[3], b[1]),
            ));
        }
        if b[4] != (b[2] | b[3]) {
            return Err(Failure::new("xor-vs-differences", format!("at ({},{}): in xor={} in A-B={} in B-A={}", p.x, p.y, b[4], b[2], b[3])));
        }
    }
    let (ai, au, aab, ax) = (mp_area2(&i), mp_area2(&u), mp_area2(&ab), mp_area2(&x));
    let (aa, abb) = (mp_area2(&case.a), mp_area2(&case.b));
    if !case.selfx {
        let t = if case.exact { 0.0 } else { (if prec == Prec::F32 { 1e-4 } else { 1e-9 }) * (aa.abs() + abb.abs()).max(case.mag() * case.mag() * 1e-3) };
        let chk = |name: &str, l: f64, r: f64| -> Result<(), Failure> {
            if (l - r).abs() > t {
                Err(Failure::new(name, format!("2*areas: A={} B={} intersection={} union={} A-B={} xor={} (lhs {} rhs {}, tolerance {})", aa, abb, ai, au, aab, ax, l, r, t)))
            } else {
                Ok(())
            }
        };
        chk("area-inclusion-exclusion", ai + au, aa + abb)?;
        chk("area-xor", ax, au - ai)?;
        chk("area-difference", aab, aa - ai)?;
    }
    obs.nontrivial = ni > 0 && nab > 0 && nba > 0;
    Ok(())
}
