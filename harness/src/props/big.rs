//! C18 (and the large-input part of C03): scenarios that run in a child process of this binary, because the
//! failure mode is a stack overflow / abort of the whole process.
use geo_booleanop::boolean::verif_hooks;
use geo_booleanop::boolean::{BooleanOp, Operation};
use geo_booleanop::splay::SplayTree;
use geo_types::{Coord, LineString, MultiPolygon, Polygon};
use std::process::{Command, Stdio};
use std::time::{Duration, Instant};

pub const ORDERS: [&str; 5] = ["ascending", "descending", "zigzag", "organpipe", "random"];
pub const ACTIONS: [&str; 12] = ["drop", "clear", "iter-forward", "iter-backward", "iter-partial-drop", "lookups", "remove-ascending", "remove-descending", "iter-alternating", "iter-untouched-drop", "iter-front-drop", "iter-back-drop"];
/// lookups done after building and before the action: they fold the chain (a splay brings the key to the root)
pub const FOLDS: [&str; 5] = ["none", "get-max", "get-min", "get-mid", "next-of-min"];
pub const SHAPES: [&str; 4] = ["comb", "grid", "nested", "lattice"];
pub const CORNERS: [&str; 4] = ["top-left", "bottom-left", "top-right", "bottom-right"];

#[derive(Clone, Debug, PartialEq)]
pub enum Scenario {
    Splay { order: usize, size: u64, action: usize, stack_mib: u64, salt: u64, fold: usize },
    Bool { shape: usize, n: u64, corner: usize, op: usize, stack_mib: u64 },
}

impl Scenario {
    pub fn args(&self) -> Vec<String> {
        match self {
            Scenario::Splay { order, size, action, stack_mib, salt, fold } => vec!["splay".into(), ORDERS[*order].into(), size.to_string(), ACTIONS[*action].into(), stack_mib.to_string(), salt.to_string(), FOLDS[*fold].into()],
            Scenario::Bool { shape, n, corner, op, stack_mib } => vec!["bool".into(), SHAPES[*shape].into(), n.to_string(), CORNERS[*corner].into(), crate::exec::op_name(crate::exec::OPS[*op]).into(), stack_mib.to_string()],
        }
    }
    pub fn text(&self) -> String {
        self.args().join(" ")
    }
    pub fn from_args(a: &[String]) -> Option<Scenario> {
        match a.first()?.as_str() {
            "splay" => Some(Scenario::Splay {
                order: ORDERS.iter().position(|o| Some(*o) == a.get(1).map(|s| s.as_str()))?,
                size: a.get(2)?.parse().ok()?,
                action: ACTIONS.iter().position(|o| Some(*o) == a.get(3).map(|s| s.as_str()))?,
                stack_mib: a.get(4)?.parse().ok()?,
                salt: a.get(5).and_then(|s| s.parse().ok()).unwrap_or(0),
                fold: a.get(6).and_then(|f| FOLDS.iter().position(|o| *o == f.as_str())).unwrap_or(0),
            }),
            "bool" => Some(Scenario::Bool {
                shape: SHAPES.iter().position(|o| Some(*o) == a.get(1).map(|s| s.as_str()))?,
                n: a.get(2)?.parse().ok()?,
                corner: CORNERS.iter().position(|o| Some(*o) == a.get(3).map(|s| s.as_str()))?,
                op: crate::exec::OPS.iter().position(|o| crate::exec::op_name(*o) == a.get(4).map(|s| s.as_str()).unwrap_or(""))?,
                stack_mib: a.get(5)?.parse().ok()?,
            }),
            _ => None,
        }
    }
}

fn lcg(s: &mut u64) -> u64 {
    *s = s.wrapping_mul(6364136223846793005).wrapping_add(1442695040888963407);
    *s >> 33
}

pub fn insertion_order(order: usize, n: u64, salt: u64) -> Vec<u32> {
    let n = n as u32;
    match ORDERS[order] {
        "ascending" => (0..n).collect(),
        "descending" => (0..n).rev().collect(),
        "zigzag" => (0..n).map(|i| if i % 2 == 0 { i / 2 } else { n - 1 - i / 2 }).collect(),
        // even keys ascending, then odd keys descending (a permutation of 0..n for every n)
        "organpipe" => (0..n).step_by(2).chain((0..n).filter(|k| k % 2 == 1).rev()).collect(),
        _ => {
            let mut v: Vec<u32> = (0..n).collect();
            let mut s = salt ^ 0x1234_5678_9abc_def1;
            for i in (1..v.len()).rev() {
                let j = (lcg(&mut s) % (i as u64 + 1)) as usize;
                v.swap(i, j);
            }
            v
        }
    }
}

fn sq(x0: f64, y0: f64, x1: f64, y1: f64) -> Polygon<f64> {
    Polygon::new(LineString(vec![Coord { x: x0, y: y0 }, Coord { x: x1, y: y0 }, Coord { x: x1, y: y1 }, Coord { x: x0, y: y1 }, Coord { x: x0, y: y0 }]), vec![])
}

/// large parametric operands: (A, B, bounding extent of A)
pub fn big_operands(shape: usize, n: u64, corner: usize) -> (MultiPolygon<f64>, MultiPolygon<f64>) {
    if SHAPES[shape] == "lattice" {
        // n horizontal bars against n vertical bars: n^2 proper crossings x 4, the number of sweep events grows
        // quadratically with the number of input edges
        let k = n as f64;
        let a = MultiPolygon((0..n).map(|i| sq(0.0, 2.0 * i as f64 + 0.5, 2.0 * k, 2.0 * i as f64 + 1.5)).collect());
        let b = MultiPolygon((0..n).map(|j| sq(2.0 * j as f64 + 0.5, 0.0, 2.0 * j as f64 + 1.5, 2.0 * k)).collect());
        return (a, b);
    }
    let (a, w, h): (MultiPolygon<f64>, f64, f64) = match SHAPES[shape] {
        "comb" => (MultiPolygon((0..n).map(|i| sq(0.0, 2.0 * i as f64, 100.0, 2.0 * i as f64 + 1.0)).collect()), 100.0, 2.0 * n as f64 - 1.0),
        "grid" => {
            let side = (n as f64).sqrt().ceil() as u64;
            let mut v = Vec::new();
            for j in 0..side {
                for i in 0..side {
                    if (v.len() as u64) < n {
                        v.push(sq(2.0 * i as f64, 2.0 * j as f64, 2.0 * i as f64 + 1.0, 2.0 * j as f64 + 1.0));
                    }
                }
            }
            (MultiPolygon(v), 2.0 * side as f64 - 1.0, 2.0 * side as f64 - 1.0)
        }
        _ => {
            // nested rings: n/2 annuli, annulus i = square ring between half-widths 2i+2 and 2i+1 around the centre
            let m = (n / 2).max(1);
            // the outermost annulus spans [0, 4m] in both directions, so that the corner box really cuts it
            let c = 2.0 * m as f64;
            let mut v = Vec::new();
            for i in 0..m {
                let (ro, ri) = (2.0 * i as f64 + 2.0, 2.0 * i as f64 + 1.0);
                let ext = sq(c - ro, c - ro, c + ro, c + ro);
                let mut hole = sq(c - ri, c - ri, c + ri, c + ri).exterior().clone();
                hole.0.reverse();
                v.push(Polygon::new(ext.exterior().clone(), vec![hole]));
            }
            (MultiPolygon(v), 2.0 * c, 2.0 * c)
        }
    };
    // the clipping box covers a small neighbourhood of one corner of A's extent
    let (bx, by) = match CORNERS[corner] {
        "top-left" => (0.0, h),
        "bottom-left" => (0.0, 0.0),
        "top-right" => (w, h),
        _ => (w, 0.0),
    };
    // for the nested rings the box stays inside the outermost band (width 1), clear of its hole
    let hw = if SHAPES[shape] == "nested" { 0.75 } else { 1.0 };
    let b = MultiPolygon(vec![sq(bx - hw, by - 1.5, bx + hw, by + 1.5)]);
    (a, b)
}

/// body of `verif child ...`; prints the sentinel line on success
pub fn child_main(args: &[String]) -> i32 {
    let sc = match Scenario::from_args(args) {
        Some(s) => s,
        None => {
            eprintln!("bad child scenario {:?}", args);
            return 2;
        }
    };
    let stack = match &sc {
        Scenario::Splay { stack_mib, .. } | Scenario::Bool { stack_mib, .. } => *stack_mib,
    };
    let handle = std::thread::Builder::new().stack_size((stack as usize) << 20).spawn(move || run_scenario(&sc)).expect("spawn");
    match handle.join() {
        Ok(line) => {
            println!("{}", line);
            0
        }
        Err(_) => {
            println!("VERIF-CHILD-PANIC");
            3
        }
    }
}

fn run_scenario(sc: &Scenario) -> String {
    match sc {
        Scenario::Splay { order, size, action, salt, fold, .. } => {
            let keys = insertion_order(*order, *size, *salt);
            let mut t = SplayTree::new(|a: &u32, b: &u32| a.cmp(b));
            for &k in &keys {
                t.insert(k, ());
            }
            drop(keys);
            let height = t.verif_height();
            let n = t.len() as u64;
            if n > 0 {
                let top = (n - 1) as u32;
                match FOLDS[*fold] {
                    "get-max" => assert!(t.get(&top).is_some()),
                    "get-min" => assert!(t.get(&0).is_some()),
                    "get-mid" => assert!(t.get(&(top / 2)).is_some()),
                    "next-of-min" => assert!(n < 2 || t.next(&0).map(|x| *x.0) == Some(1)),
                    _ => {}
                }
            }
            let mut checksum: u64 = 0;
            let mut count: u64 = 0;
            match ACTIONS[*action] {
                "drop" => drop(t),
                "clear" => {
                    t.clear();
                    count = t.len() as u64;
                }
                "iter-forward" => {
                    let mut last: Option<u32> = None;
                    for (k, _) in t.into_iter() {
                        assert!(last.map(|l| l < k).unwrap_or(true), "iteration not increasing");
                        last = Some(k);
                        checksum += k as u64;
                        count += 1;
                    }
                }
                "iter-backward" => {
                    for (k, _) in t.into_iter().rev() {
                        checksum += k as u64;
                        count += 1;
                    }
                }
                "iter-alternating" => {
                    let mut it = t.into_iter();
                    loop {
                        let x = if count % 2 == 0 { it.next() } else { it.next_back() };
                        match x {
                            Some((k, _)) => {
                                checksum += k as u64;
                                count += 1;
                            }
                            None => break,
                        }
                    }
                }
                "iter-partial-drop" => {
                    let mut it = t.into_iter();
                    for _ in 0..3 {
                        if let Some((k, _)) = it.next() {
                            checksum += k as u64;
                            count += 1;
                        }
                    }
                    if let Some((k, _)) = it.next_back() {
                        checksum += k as u64;
                        count += 1;
                    }
                    drop(it);
                }
                "iter-untouched-drop" => {
                    let it = t.into_iter();
                    count = it.len() as u64;
                    drop(it);
                }
                "iter-front-drop" => {
                    let mut it = t.into_iter();
                    for _ in 0..1000 {
                        if let Some((k, _)) = it.next() {
                            checksum += k as u64;
                            count += 1;
                        }
                    }
                    drop(it);
                }
                "iter-back-drop" => {
                    let mut it = t.into_iter();
                    for _ in 0..1000 {
                        if let Some((k, _)) = it.next_back() {
                            checksum += k as u64;
                            count += 1;
                        }
                    }
                    drop(it);
                }
                "lookups" => {
                    let mut s = *salt ^ 0x9e37_79b9;
                    for _ in 0..10_000 {
                        let k = (lcg(&mut s) % n.max(1)) as u32;
                        match lcg(&mut s) % 3 {
                            0 => {
                                if t.get(&k).is_some() {
                                    count += 1;
                                }
                            }
                            1 => {
                                if let Some((x, _)) = t.next(&k) {
                                    assert!(*x == k + 1);
                                    count += 1;
                                }
                            }
                            _ => {
                                if let Some((x, _)) = t.prev(&k) {
                                    assert!(*x + 1 == k);
                                    count += 1;
                                }
                            }
                        }
                    }
                    checksum = t.len() as u64;
                    // the tree is still degenerate in places; it is dropped here
                    drop(t);
                }
                "remove-ascending" => {
                    for k in 0..n as u32 {
                        if t.remove(&k).is_some() {
                            count += 1;
                        }
                    }
                    checksum = t.len() as u64;
                }
                _ => {
                    for k in (0..n as u32).rev() {
                        if t.remove(&k).is_some() {
                            count += 1;
                        }
                    }
                    checksum = t.len() as u64;
                }
            }
            format!("VERIF-CHILD-OK n={} height={} count={} checksum={}", n, height, count, checksum)
        }
        Scenario::Bool { shape, n, corner, op, .. } => {
            let (a, b) = big_operands(*shape, *n, *corner);
            let count = |m: &MultiPolygon<f64>| -> u64 { m.0.iter().map(|p| (p.exterior().0.len() - 1 + p.interiors().iter().map(|h| h.0.len() - 1).sum::<usize>()) as u64).sum() };
            let edges: u64 = count(&a) + count(&b) - 4;
            verif_hooks::reset(u64::MAX);
            let r = a.boolean(&b, crate::exec::OPS[*op]);
            let rings: usize = r.0.iter().map(|p| 1 + p.interiors().len()).sum();
            format!(
                "VERIF-CHILD-OK edges={} polys={} rings={} events={} break_len={} max_sweep_len={}",
                edges + 4,
                r.0.len(),
                rings,
                verif_hooks::count(),
                verif_hooks::sweep_line_len_at_break().map(|x| x as i64).unwrap_or(-1),
                verif_hooks::max_sweep_line_len()
            )
        }
    }
}

#[derive(Debug, Clone)]
pub enum ChildResult {
    Ok(std::collections::BTreeMap<String, i64>),
    /// abnormal termination: signal or non-zero exit, with captured stderr tail
    Died(String),
    Timeout,
}

pub fn run_child(sc: &Scenario, timeout: Duration) -> (ChildResult, f64) {
    let exe = std::env::current_exe().expect("current_exe");
    let t0 = Instant::now();
    let mut child = Command::new(exe).arg("child").args(sc.args()).stdout(Stdio::piped()).stderr(Stdio::piped()).spawn().expect("spawn child");
    loop {
        match child.try_wait() {
            Ok(Some(_)) => break,
            Ok(None) => {
                if t0.elapsed() > timeout {
                    let _ = child.kill();
                    let _ = child.wait();
                    return (ChildResult::Timeout, t0.elapsed().as_secs_f64());
                }
                std::thread::sleep(Duration::from_millis(20));
            }
            Err(e) => return (ChildResult::Died(format!("wait failed: {}", e)), t0.elapsed().as_secs_f64()),
        }
    }
    let out = child.wait_with_output().expect("output");
    let stdout = String::from_utf8_lossy(&out.stdout).to_string();
    let stderr = String::from_utf8_lossy(&out.stderr).to_string();
    let secs = t0.elapsed().as_secs_f64();
    if let Some(line) = stdout.lines().find(|l| l.starts_with("VERIF-CHILD-OK")) {
        if out.status.success() {
            let mut m = std::collections::BTreeMap::new();
            for kv in line.split_whitespace().skip(1) {
                if let Some((k, v)) = kv.split_once('=') {
                    if let Ok(v) = v.parse::<i64>() {
                        m.insert(k.to_string(), v);
                    }
                }
            }
            return (ChildResult::Ok(m), secs);
        }
    }
    let tail: String = stderr.lines().rev().take(4).collect::<Vec<_>>().into_iter().rev().collect::<Vec<_>>().join(" | ");
    (ChildResult::Died(format!("status {:?}; stdout `{}`; stderr tail `{}`", out.status, stdout.trim(), tail)), secs)
}

pub fn op_of(i: usize) -> Operation {
    crate::exec::OPS[i]
}
