//! C17: the splay tree against a BTreeMap model (exhaustive small universes, random histories).
use crate::runner::{Eval, Failure, Obs};
use geo_booleanop::splay::{SplaySet, SplayTree};
use proptest::collection::vec;
use proptest::prelude::*;
use serde_json::{json, Value};
use std::cmp::Ordering;
use std::collections::{BTreeMap, HashMap, VecDeque};

// ---------------------------------------------------------------------------------------------
// parsing the Debug rendering: `Some(Node { key: 1, value: 101, left: None, right: Some(Node { .. }) })` / `None`

#[derive(Debug, Clone, PartialEq)]
pub struct Shape {
    pub inorder: Vec<i32>,
    pub height: usize,
}

struct Parser<'a> {
    s: &'a [u8],
    i: usize,
}

impl<'a> Parser<'a> {
    fn eat(&mut self, t: &str) -> Result<(), String> {
        if self.s[self.i..].starts_with(t.as_bytes()) {
            self.i += t.len();
            Ok(())
        } else {
            Err(format!("expected `{}` at {}", t, self.i))
        }
    }
    fn until(&mut self, t: &str) -> Result<&'a str, String> {
        let hay = &self.s[self.i..];
        let pos = hay.windows(t.len()).position(|w| w == t.as_bytes()).ok_or_else(|| format!("missing `{}`", t))?;
        let r = std::str::from_utf8(&hay[..pos]).unwrap();
        self.i += pos;
        Ok(r)
    }
    /// returns height; pushes keys in order
    fn opt_node(&mut self, out: &mut Vec<i32>) -> Result<usize, String> {
        if self.s[self.i..].starts_with(b"None") {
            self.i += 4;
            return Ok(0);
        }
        self.eat("Some(Node { key: ")?;
        let k: i32 = self.until(", value: ")?.trim().parse().map_err(|e| format!("key: {}", e))?;
        self.eat(", value: ")?;
        self.until(", left: ")?;
        self.eat(", left: ")?;
        let hl = self.opt_node(out)?;
        out.push(k);
        self.eat(", right: ")?;
        let hr = self.opt_node(out)?;
        self.eat(" })")?;
        Ok(1 + hl.max(hr))
    }
}

pub fn parse_debug(s: &str) -> Result<Shape, String> {
    let mut p = Parser { s: s.as_bytes(), i: 0 };
    let mut inorder = Vec::new();
    let height = p.opt_node(&mut inorder)?;
    if p.i != s.len() {
        return Err(format!("trailing input at {}", p.i));
    }
    Ok(Shape { inorder, height })
}

// ---------------------------------------------------------------------------------------------
// comparators (consistent total orders)

#[derive(Clone, Copy, Debug, PartialEq, Eq)]
pub enum Cmp {
    Natural,
    Reversed,
    Mod7,
}

impl Cmp {
    /// order-isomorphic image of a key
    pub fn image(self, k: i32) -> (i64, i64) {
        match self {
            Cmp::Natural => (0, k as i64),
            Cmp::Reversed => (0, -(k as i64)),
            Cmp::Mod7 => (k.rem_euclid(7) as i64, k as i64),
        }
    }
    pub fn cmp(self, a: &i32, b: &i32) -> Ordering {
        self.image(*a).cmp(&self.image(*b))
    }
}

// ---------------------------------------------------------------------------------------------
// histories

#[derive(Clone, Debug, PartialEq)]
pub enum Op {
    Insert(i32, i32),
    Remove(i32),
    Get(i32),
    GetMutWrite(i32, i32),
    FindKey(i32),
    Contains(i32),
    Next(i32),
    Prev(i32),
    Min,
    Max,
    Len,
    Clear,
    Extend(Vec<(i32, i32)>),
    Index(i32),
    IndexMutWrite(i32, i32),
    /// take a reference by lookup kind (0 find_key, 1 next, 2 prev, 3 min, 4 max, 5 get) with key, perform further lookups, read it
    HoldRef(u8, i32, Vec<(u8, i32)>),
}

#[derive(Clone, Debug, PartialEq)]
pub enum Finale {
    Drop,
    IterForward,
    IterBackward,
    /// bit i of the pattern: take element i from the back
    IterPattern(u64),
    /// consume n elements by the pattern, then drop the iterator
    IterPartial(u8, u64),
}

#[derive(Clone, Debug, PartialEq)]
pub struct History {
    pub set: bool,
    pub cmp: Cmp,
    pub ops: Vec<Op>,
    pub finale: Finale,
}

fn key_strategy() -> BoxedStrategy<i32> {
    prop_oneof![8 => -12i32..12, 1 => any::<i32>()].boxed()
}

pub fn op_strategy() -> BoxedStrategy<Op> {
    let k = key_strategy;
    prop_oneof![
        6 => (k(), any::<i32>()).prop_map(|(a, b)| Op::Insert(a, b)),
        4 => k().prop_map(Op::Remove),
        2 => k().prop_map(Op::Get),
        1 => (k(), any::<i32>()).prop_map(|(a, b)| Op::GetMutWrite(a, b)),
        2 => k().prop_map(Op::FindKey),
        1 => k().prop_map(Op::Contains),
        3 => k().prop_map(Op::Next),
        3 => k().prop_map(Op::Prev),
        1 => Just(Op::Min),
        1 => Just(Op::Max),
        1 => Just(Op::Len),
        1 => Just(Op::Clear),
        1 => vec((k(), any::<i32>()), 0..6).prop_map(Op::Extend),
        // a monotone run of many keys: builds a list-shaped tree several hundred levels deep around the small keys
        1 => (-40i32..40, 40usize..500, any::<bool>(), 1i32..3).prop_map(|(start, len, up, step)| Op::Extend((0..len as i32).map(|i| (if up { start + i * step } else { start - i * step }, i)).collect())),
        1 => k().prop_map(Op::Index),
        1 => (k(), any::<i32>()).prop_map(|(a, b)| Op::IndexMutWrite(a, b)),
        3 => (0u8..6, k(), vec((0u8..6, k()), 1..8)).prop_map(|(a, b, c)| Op::HoldRef(a, b, c)),
    ]
    .boxed()
}

pub fn history_strategy(max_ops: usize) -> BoxedStrategy<History> {
    let finale = prop_oneof![
        1 => Just(Finale::Drop),
        1 => Just(Finale::IterForward),
        1 => Just(Finale::IterBackward),
        3 => any::<u64>().prop_map(Finale::IterPattern),
        2 => (any::<u8>(), any::<u64>()).prop_map(|(n, p)| Finale::IterPartial(n, p)),
    ];
    let cmp = prop_oneof![3 => Just(Cmp::Natural), 1 => Just(Cmp::Reversed), 1 => Just(Cmp::Mod7)];
    (proptest::bool::weighted(0.25), cmp, vec(op_strategy(), 1..max_ops), finale).prop_map(|(set, cmp, ops, finale)| History { set, cmp, ops, finale }).boxed()
}

type Model = BTreeMap<(i64, i64), (i32, i32)>;

fn m_next(m: &Model, c: Cmp, k: i32) -> Option<(i32, i32)> {
    use std::ops::Bound::*;
    m.range((Excluded(c.image(k)), Unbounded)).next().map(|(_, v)| *v)
}
fn m_prev(m: &Model, c: Cmp, k: i32) -> Option<(i32, i32)> {
    use std::ops::Bound::*;
    m.range((Unbounded, Excluded(c.image(k)))).next_back().map(|(_, v)| *v)
}

macro_rules! bail {
    ($step:expr, $($arg:tt)*) => {
        return Err(Failure::new("model-mismatch", format!("step {}: {}", $step, format!($($arg)*))))
    };
}

fn check_shape<C: Fn(&i32, &i32) -> Ordering>(step: usize, t: &SplayTree<i32, Box<i32>, C>, m: &Model) -> Result<Shape, Failure> {
    if t.len() != m.len() {
        bail!(step, "len() = {} but the model holds {} keys", t.len(), m.len());
    }
    if t.is_empty() != m.is_empty() {
        bail!(step, "is_empty() = {} but the model holds {} keys", t.is_empty(), m.len());
    }
    let dbg = format!("{:?}", t);
    let shape = parse_debug(&dbg).map_err(|e| Failure::new("debug-rendering", format!("step {}: cannot parse `{}`: {}", step, dbg, e)))?;
    let want: Vec<i32> = m.values().map(|v| v.0).collect();
    if shape.inorder != want {
        bail!(step, "in-order keys of the tree {:?} differ from the model {:?}", shape.inorder, want);
    }
    Ok(shape)
}

fn consume<I: DoubleEndedIterator<Item = (i32, Box<i32>)>>(it: &mut I, items: &[(i32, i32)], pattern: u64, count: usize) -> Result<(), Failure> {
    let n = items.len();
    let (mut lo, mut hi) = (0usize, n);
    for i in 0..count {
        let h = it.size_hint();
        if h != (hi - lo, Some(hi - lo)) {
            return Err(Failure::new("size-hint", format!("size_hint {:?} with {} elements remaining", h, hi - lo)));
        }
        let back = pattern >> (i % 64) & 1 == 1;
        let got = if back { it.next_back() } else { it.next() }.map(|(k, v)| (k, *v));
        let want = if lo < hi {
            Some(if back {
                hi -= 1;
                items[hi]
            } else {
                lo += 1;
                items[lo - 1]
            })
        } else {
            None
        };
        if got != want {
            return Err(Failure::new("iteration", format!("element {} ({}) is {:?}, model {:?}", i, if back { "from the back" } else { "from the front" }, got, want)));
        }
    }
    Ok(())
}

/// interpret a history on SplayTree<i32, Box<i32>> against the model; every return value is compared
pub fn run_tree(h: &History, obs: &mut Obs) -> Result<(), Failure> {
    let c = h.cmp;
    let mut t = SplayTree::new(move |a: &i32, b: &i32| c.cmp(a, b));
    let mut m: Model = BTreeMap::new();
    let mut restructured = false;
    for (step, op) in h.ops.iter().enumerate() {
        match op {
            Op::Insert(k, v) => {
                let got = t.insert(*k, Box::new(*v)).map(|b| *b);
                let want = m.insert(c.image(*k), (*k, *v)).map(|x| x.1);
                if got != want {
                    bail!(step, "insert({},{}) returned {:?}, model {:?}", k, v, got, want);
                }
                if want.is_some() {
                    obs.class("insert-replace");
                }
            }
            Op::Remove(k) => {
                let two_children = m.contains_key(&c.image(*k)) && m_next(&m, c, *k).is_some() && m_prev(&m, c, *k).is_some();
                let got = t.remove(k).map(|b| *b);
                let want = m.remove(&c.image(*k)).map(|x| x.1);
                if got != want {
                    bail!(step, "remove({}) returned {:?}, model {:?}", k, got, want);
                }
                if two_children {
                    obs.nontrivial = true;
                    obs.class("remove-two-children");
                }
                if want.is_none() && restructured {
                    obs.class("miss-after-restructuring");
                }
            }
            Op::Get(k) => {
                let got = t.get(k).map(|b| **b);
                let want = m.get(&c.image(*k)).map(|x| x.1);
                if got != want {
                    bail!(step, "get({}) returned {:?}, model {:?}", k, got, want);
                }
                if want.is_none() && restructured && !m.is_empty() {
                    obs.nontrivial = true;
                    obs.class("miss-after-restructuring");
                }
            }
            Op::GetMutWrite(k, v) => {
                let got = t.get_mut(k).map(|b| {
                    let old = **b;
                    **b = *v;
                    old
                });
                let want = m.get_mut(&c.image(*k)).map(|x| {
                    let old = x.1;
                    x.1 = *v;
                    old
                });
                if got != want {
                    bail!(step, "get_mut({}) returned {:?}, model {:?}", k, got, want);
                }
            }
            Op::FindKey(k) => {
                let got = t.find_key(k).cloned();
                let want = m.get(&c.image(*k)).map(|x| x.0);
                if got != want {
                    bail!(step, "find_key({}) returned {:?}, model {:?}", k, got, want);
                }
            }
            Op::Contains(k) => {
                let got = t.contains(k);
                let want = m.contains_key(&c.image(*k));
                if got != want {
                    bail!(step, "contains({}) returned {:?}, model {:?}", k, got, want);
                }
            }
            Op::Next(k) => {
                let got = t.next(k).map(|(a, b)| (*a, **b));
                let want = m_next(&m, c, *k);
                if got != want {
                    bail!(step, "next({}) returned {:?}, model {:?}", k, got, want);
                }
                if !m.contains_key(&c.image(*k)) {
                    obs.class("next/prev-of-absent-key");
                }
            }
            Op::Prev(k) => {
                let got = t.prev(k).map(|(a, b)| (*a, **b));
                let want = m_prev(&m, c, *k);
                if got != want {
                    bail!(step, "prev({}) returned {:?}, model {:?}", k, got, want);
                }
                if !m.contains_key(&c.image(*k)) {
                    obs.class("next/prev-of-absent-key");
                }
            }
            Op::Min => {
                let got = t.min().cloned();
                let want = m.values().next().map(|x| x.0);
                if got != want {
                    bail!(step, "min() returned {:?}, model {:?}", got, want);
                }
            }
            Op::Max => {
                let got = t.max().cloned();
                let want = m.values().next_back().map(|x| x.0);
                if got != want {
                    bail!(step, "max() returned {:?}, model {:?}", got, want);
                }
            }
            Op::Len => {}
            Op::Clear => {
                t.clear();
                m.clear();
            }
            Op::Extend(items) => {
                t.extend(items.iter().map(|&(k, v)| (k, Box::new(v))));
                for &(k, v) in items {
                    m.insert(c.image(k), (k, v));
                }
            }
            Op::Index(k) => {
                if let Some(x) = m.get(&c.image(*k)) {
                    let got = *t[k];
                    if got != x.1 {
                        bail!(step, "tree[{}] = {}, model {}", k, got, x.1);
                    }
                }
            }
            Op::IndexMutWrite(k, v) => {
                if let Some(x) = m.get_mut(&c.image(*k)) {
                    *t[k] = *v;
                    x.1 = *v;
                }
            }
            Op::HoldRef(kind, k, lookups) => {
                // take a reference as `subdivide` does with prev/next, keep it across further &self lookups
                let held: Option<(&i32, Option<&Box<i32>>)> = match kind % 6 {
                    0 => t.find_key(k).map(|r| (r, None)),
                    1 => t.next(k).map(|(a, b)| (a, Some(b))),
                    2 => t.prev(k).map(|(a, b)| (a, Some(b))),
                    3 => t.min().map(|r| (r, None)),
                    4 => t.max().map(|r| (r, None)),
                    _ => match t.get(k) {
                        Some(v) => t.find_key(k).map(|r| (r, Some(v))),
                        None => None,
                    },
                };
                let want: Option<(i32, i32)> = match kind % 6 {
                    0 | 5 => m.get(&c.image(*k)).cloned(),
                    1 => m_next(&m, c, *k),
                    2 => m_prev(&m, c, *k),
                    3 => m.values().next().cloned(),
                    _ => m.values().next_back().cloned(),
                };
                if held.map(|h| *h.0) != want.map(|w| w.0) {
                    bail!(step, "lookup kind {} key {} returned {:?}, model {:?}", kind % 6, k, held.map(|h| *h.0), want.map(|w| w.0));
                }
                for (lk, lkey) in lookups {
                    match lk % 6 {
                        0 => {
                            let _ = t.find_key(lkey);
                        }
                        1 => {
                            let _ = t.next(lkey);
                        }
                        2 => {
                            let _ = t.prev(lkey);
                        }
                        3 => {
                            let _ = t.contains(lkey);
                        }
                        4 => {
                            let _ = t.get(lkey);
                        }
                        _ => {
                            let _ = t.min();
                        }
                    }
                }
                if let (Some((kr, vr)), Some((wk, wv))) = (held, want) {
                    if *kr != wk {
                        bail!(step, "held key reference reads {} after {} further lookups, expected {}", *kr, lookups.len(), wk);
                    }
                    if let Some(vr) = vr {
                        if **vr != wv {
                            bail!(step, "held value reference reads {} after further lookups, expected {}", **vr, wv);
                        }
                    }
                    let fresh = t.find_key(&wk).map(|r| r as *const i32);
                    if fresh != Some(kr as *const i32) {
                        bail!(step, "held key reference {:p} is not the address of a fresh lookup {:?}", kr, fresh);
                    }
                    obs.class("held-reference");
                }
            }
        }
        match op {
            Op::Get(_) | Op::FindKey(_) | Op::Next(_) | Op::Prev(_) | Op::Contains(_) | Op::HoldRef(..) | Op::Remove(_) => restructured = true,
            _ => {}
        }
        check_shape(step, &t, &m)?;
    }
    // finale
    let items: Vec<(i32, i32)> = m.values().cloned().collect();
    let n = items.len();
    match &h.finale {
        Finale::Drop => drop(t),
        Finale::IterForward => {
            let mut it = t.into_iter();
            consume(&mut it, &items, 0, n + 1)?;
        }
        Finale::IterBackward => {
            let mut it = t.into_iter();
            consume(&mut it, &items, u64::MAX, n + 1)?;
        }
        Finale::IterPattern(p) => {
            let mut it = t.into_iter();
            consume(&mut it, &items, *p, n + 1)?;
            if n >= 3 && *p & ((1u64 << n.min(63)) - 1) != 0 && !*p & ((1u64 << n.min(63)) - 1) != 0 {
                obs.nontrivial = true;
                obs.class("mixed-direction-iteration");
            }
        }
        Finale::IterPartial(k, p) => {
            let mut it = t.into_iter();
            let cnt = if n == 0 { 0 } else { *k as usize % (n + 1) };
            consume(&mut it, &items, *p, cnt)?;
            drop(it);
            obs.class("partial-iteration-then-drop");
        }
    }
    Ok(())
}

/// the same history on SplaySet<i32> (values ignored)
pub fn run_set(h: &History, obs: &mut Obs) -> Result<(), Failure> {
    let c = h.cmp;
    let mut t = SplaySet::new(move |a: &i32, b: &i32| c.cmp(a, b));
    let mut m: Model = BTreeMap::new();
    for (step, op) in h.ops.iter().enumerate() {
        match op {
            Op::Insert(k, _) | Op::GetMutWrite(k, _) | Op::IndexMutWrite(k, _) => {
                let got = t.insert(*k);
                let want = m.insert(c.image(*k), (*k, 0)).is_none();
                if got != want {
                    bail!(step, "set.insert({}) returned {}, model {}", k, got, want);
                }
            }
            Op::Remove(k) => {
                let two_children = m.contains_key(&c.image(*k)) && m_next(&m, c, *k).is_some() && m_prev(&m, c, *k).is_some();
                let got = t.remove(k);
                let want = m.remove(&c.image(*k)).is_some();
                if got != want {
                    bail!(step, "set.remove({}) returned {}, model {}", k, got, want);
                }
                if two_children {
                    obs.nontrivial = true;
                    obs.class("remove-two-children");
                }
            }
            Op::Get(k) | Op::FindKey(k) | Op::Index(k) => {
                let got = t.find(k).cloned();
                let want = m.get(&c.image(*k)).map(|x| x.0);
                if got != want {
                    bail!(step, "set.find({}) returned {:?}, model {:?}", k, got, want);
                }
            }
            Op::Contains(k) => {
                let got = t.contains(k);
                let want = m.contains_key(&c.image(*k));
                if got != want {
                    bail!(step, "set.contains({}) returned {}, model {}", k, got, want);
                }
            }
            Op::Next(k) => {
                let got = t.next(k).cloned();
                let want = m_next(&m, c, *k).map(|x| x.0);
                if got != want {
                    bail!(step, "set.next({}) returned {:?}, model {:?}", k, got, want);
                }
            }
            Op::Prev(k) => {
                let got = t.prev(k).cloned();
                let want = m_prev(&m, c, *k).map(|x| x.0);
                if got != want {
                    bail!(step, "set.prev({}) returned {:?}, model {:?}", k, got, want);
                }
            }
            Op::Min => {
                let got = t.min().cloned();
                let want = m.values().next().map(|x| x.0);
                if got != want {
                    bail!(step, "set.min() returned {:?}, model {:?}", got, want);
                }
            }
            Op::Max => {
                let got = t.max().cloned();
                let want = m.values().next_back().map(|x| x.0);
                if got != want {
                    bail!(step, "set.max() returned {:?}, model {:?}", got, want);
                }
            }
            Op::Len => {}
            Op::Clear => {
                t.clear();
                m.clear();
            }
            Op::Extend(items) => {
                t.extend(items.iter().map(|&(k, _)| k));
                for &(k, _) in items {
                    m.insert(c.image(k), (k, 0));
                }
            }
            Op::HoldRef(kind, k, lookups) => {
                // the sweep's own pattern: prev and next of a key held while the other is looked up
                let held = match kind % 3 {
                    0 => t.find(k),
                    1 => t.next(k),
                    _ => t.prev(k),
                };
                let want = match kind % 3 {
                    0 => m.get(&c.image(*k)).map(|x| x.0),
                    1 => m_next(&m, c, *k).map(|x| x.0),
                    _ => m_prev(&m, c, *k).map(|x| x.0),
                };
                for (lk, lkey) in lookups {
                    match lk % 3 {
                        0 => {
                            let _ = t.find(lkey);
                        }
                        1 => {
                            let _ = t.next(lkey);
                        }
                        _ => {
                            let _ = t.prev(lkey);
                        }
                    }
                }
                if held.cloned() != want {
                    bail!(step, "set lookup kind {} key {} reads {:?} after further lookups, model {:?}", kind % 3, k, held, want);
                }
                if let (Some(r), Some(w)) = (held, want) {
                    if t.find(&w).map(|x| x as *const i32) != Some(r as *const i32) {
                        bail!(step, "held set reference is not the address of a fresh lookup");
                    }
                    obs.class("held-reference");
                }
            }
        }
        if t.len() != m.len() || t.is_empty() != m.is_empty() {
            bail!(step, "set.len() = {} is_empty() = {} but the model holds {} keys", t.len(), t.is_empty(), m.len());
        }
    }
    let items: Vec<i32> = m.values().map(|x| x.0).collect();
    let n = items.len();
    let pattern = match &h.finale {
        Finale::Drop => return Ok(()),
        Finale::IterForward => 0,
        Finale::IterBackward => u64::MAX,
        Finale::IterPattern(p) | Finale::IterPartial(_, p) => *p,
    };
    let count = match &h.finale {
        Finale::IterPartial(k, _) if n > 0 => *k as usize % (n + 1),
        Finale::IterPartial(..) => 0,
        _ => n + 1,
    };
    let mut it = t.into_iter();
    let (mut lo, mut hi) = (0usize, n);
    for i in 0..count {
        if it.size_hint() != (hi - lo, Some(hi - lo)) {
            return Err(Failure::new("size-hint", format!("set iterator size_hint {:?} with {} remaining", it.size_hint(), hi - lo)));
        }
        let back = pattern >> (i % 64) & 1 == 1;
        let got = if back { it.next_back() } else { it.next() };
        let want = if lo < hi {
            Some(if back {
                hi -= 1;
                items[hi]
            } else {
                lo += 1;
                items[lo - 1]
            })
        } else {
            None
        };
        if got != want {
            return Err(Failure::new("iteration", format!("set element {} is {:?}, model {:?}", i, got, want)));
        }
    }
    Ok(())
}

/// The same history with keys that carry a tag the comparator ignores: (key, tag) ordered by key only. A sorted map
/// keeps the key it already holds when an equal key is inserted again (BTreeMap: "the key is not updated"), so every
/// key handed out must carry the tag of the *first* insertion since the last removal.
pub fn run_tagged(h: &History, obs: &mut Obs) -> Result<(), Failure> {
    let c = h.cmp;
    let mut t = SplayTree::new(move |a: &(i32, u32), b: &(i32, u32)| c.cmp(&a.0, &b.0));
    let mut m: BTreeMap<(i64, i64), ((i32, u32), i32)> = BTreeMap::new();
    let insert = |t: &mut SplayTree<(i32, u32), i32, _>, m: &mut BTreeMap<(i64, i64), ((i32, u32), i32)>, k: i32, v: i32, tag: u32, obs: &mut Obs| -> Result<(), Failure> {
        let got = t.insert((k, tag), v);
        let want = match m.get_mut(&c.image(k)) {
            Some(e) => {
                obs.class("re-insert-of-equal-key");
                Some(std::mem::replace(&mut e.1, v))
            }
            None => {
                m.insert(c.image(k), ((k, tag), v));
                None
            }
        };
        if got != want {
            return Err(Failure::new("model-mismatch", format!("tagged insert({},{}) returned {:?}, model {:?}", k, v, got, want)));
        }
        Ok(())
    };
    for (step, op) in h.ops.iter().enumerate() {
        let tag = step as u32 + 1;
        match op {
            Op::Insert(k, v) | Op::GetMutWrite(k, v) | Op::IndexMutWrite(k, v) => insert(&mut t, &mut m, *k, *v, tag, obs)?,
            Op::Extend(items) => {
                for (i, &(k, v)) in items.iter().enumerate() {
                    insert(&mut t, &mut m, k, v, tag * 1000 + i as u32, obs)?;
                }
            }
            Op::Remove(k) => {
                let got = t.remove(&(*k, 0));
                let want = m.remove(&c.image(*k)).map(|e| e.1);
                if got != want {
                    bail!(step, "tagged remove({}) returned {:?}, model {:?}", k, got, want);
                }
            }
            Op::Clear => {
                t.clear();
                m.clear();
            }
            Op::FindKey(k) | Op::Get(k) | Op::Contains(k) | Op::Index(k) => {
                let got = t.find_key(&(*k, 0)).cloned();
                let want = m.get(&c.image(*k)).map(|e| e.0);
                if got != want {
                    bail!(step, "find_key({}) handed out the key {:?}, a sorted map holds {:?} (key, tag of the insertion that created the entry)", k, got, want);
                }
            }
            Op::Next(k) | Op::HoldRef(_, k, _) => {
                use std::ops::Bound::*;
                let got = t.next(&(*k, 0)).map(|(a, b)| (*a, *b));
                let want = m.range((Excluded(c.image(*k)), Unbounded)).next().map(|(_, e)| *e);
                if got != want {
                    bail!(step, "next({}) handed out {:?}, a sorted map holds {:?}", k, got, want);
                }
            }
            Op::Prev(k) => {
                use std::ops::Bound::*;
                let got = t.prev(&(*k, 0)).map(|(a, b)| (*a, *b));
                let want = m.range((Unbounded, Excluded(c.image(*k)))).next_back().map(|(_, e)| *e);
                if got != want {
                    bail!(step, "prev({}) handed out {:?}, a sorted map holds {:?}", k, got, want);
                }
            }
            Op::Min | Op::Max | Op::Len => {
                let (gmin, gmax) = (t.min().cloned(), t.max().cloned());
                let (wmin, wmax) = (m.values().next().map(|e| e.0), m.values().next_back().map(|e| e.0));
                if gmin != wmin || gmax != wmax {
                    bail!(step, "min/max handed out {:?}/{:?}, a sorted map holds {:?}/{:?}", gmin, gmax, wmin, wmax);
                }
            }
        }
        if t.len() != m.len() {
            bail!(step, "tagged len() = {}, model {}", t.len(), m.len());
        }
    }
    let got: Vec<((i32, u32), i32)> = t.into_iter().collect();
    let want: Vec<((i32, u32), i32)> = m.values().cloned().collect();
    if got != want {
        return Err(Failure::new("iteration", format!("consuming iteration yields {:?}, a sorted map holds {:?}", got, want)));
    }
    Ok(())
}

/// tagged elements in a SplaySet: an element equal to one already present must not replace it
pub fn run_tagged_set(h: &History, obs: &mut Obs) -> Result<(), Failure> {
    let c = h.cmp;
    let mut t = SplaySet::new(move |a: &(i32, u32), b: &(i32, u32)| c.cmp(&a.0, &b.0));
    let mut m: BTreeMap<(i64, i64), (i32, u32)> = BTreeMap::new();
    for (step, op) in h.ops.iter().enumerate() {
        let tag = step as u32 + 1;
        match op {
            Op::Insert(k, _) | Op::GetMutWrite(k, _) | Op::IndexMutWrite(k, _) => {
                let got = t.insert((*k, tag));
                let want = if m.contains_key(&c.image(*k)) {
                    obs.class("re-insert-of-equal-key");
                    false
                } else {
                    m.insert(c.image(*k), (*k, tag));
                    true
                };
                if got != want {
                    bail!(step, "tagged set.insert({}) returned {}, model {}", k, got, want);
                }
            }
            Op::Remove(k) => {
                let got = t.remove(&(*k, 0));
                let want = m.remove(&c.image(*k)).is_some();
                if got != want {
                    bail!(step, "tagged set.remove({}) returned {}, model {}", k, got, want);
                }
            }
            Op::Clear => {
                t.clear();
                m.clear();
            }
            Op::FindKey(k) | Op::Get(k) | Op::Contains(k) | Op::Next(k) | Op::Prev(k) => {
                let got = t.find(&(*k, 0)).cloned();
                let want = m.get(&c.image(*k)).cloned();
                if got != want {
                    bail!(step, "set.find({}) handed out {:?}, a sorted set holds {:?} (element, tag of the insertion that created it)", k, got, want);
                }
            }
            _ => {}
        }
    }
    let got: Vec<(i32, u32)> = t.into_iter().collect();
    let want: Vec<(i32, u32)> = m.values().cloned().collect();
    if got != want {
        return Err(Failure::new("iteration", format!("set iteration yields {:?}, a sorted set holds {:?}", got, want)));
    }
    Ok(())
}

pub fn eval_history(h: &History, want_sample: bool) -> Eval {
    use std::hash::{Hash, Hasher};
    let mut obs = Obs::default();
    obs.class(if h.set { "SplaySet" } else { "SplayTree" });
    obs.class(match h.cmp {
        Cmp::Natural => "cmp-natural",
        Cmp::Reversed => "cmp-reversed",
        Cmp::Mod7 => "cmp-mod7",
    });
    let r = crate::exec::guarded(u64::MAX, || {
        if h.set {
            run_set(h, &mut obs)?;
            run_tagged_set(h, &mut obs)
        } else {
            run_tree(h, &mut obs)?;
            run_tagged(h, &mut obs)
        }
    });
    let result = match r {
        Ok(r) => r,
        Err(p) => Err(Failure::new("panic", format!("history panicked at {}:{}: {}", p.file, p.line, p.message))),
    };
    let mut hasher = std::collections::hash_map::DefaultHasher::new();
    format!("{:?}", h).hash(&mut hasher);
    let sample = if want_sample && h.ops.len() <= 12 { Some(json!({"history": format!("{:?}", h)})) } else { None };
    Eval { obs, result, digest: hasher.finish(), family: if h.set { "set-histories" } else { "tree-histories" }, sample, skip: None }
}

pub fn history_to_json(h: &History) -> Value {
    json!({ "kind": "splay-history", "history": history_to_text(h) })
}

// ---------------------------------------------------------------------------------------------
// plain-text history format for replay files: one token per op

pub fn history_to_text(h: &History) -> String {
    let mut s = format!("{} {:?}", if h.set { "set" } else { "tree" }, h.cmp);
    for op in &h.ops {
        s.push_str(" ; ");
        s.push_str(&match op {
            Op::Insert(k, v) => format!("insert {} {}", k, v),
            Op::Remove(k) => format!("remove {}", k),
            Op::Get(k) => format!("get {}", k),
            Op::GetMutWrite(k, v) => format!("getmut {} {}", k, v),
            Op::FindKey(k) => format!("findkey {}", k),
            Op::Contains(k) => format!("contains {}", k),
            Op::Next(k) => format!("next {}", k),
            Op::Prev(k) => format!("prev {}", k),
            Op::Min => "min".into(),
            Op::Max => "max".into(),
            Op::Len => "len".into(),
            Op::Clear => "clear".into(),
            Op::Extend(items) => format!("extend {}", items.iter().map(|(k, v)| format!("{} {}", k, v)).collect::<Vec<_>>().join(" ")),
            Op::Index(k) => format!("index {}", k),
            Op::IndexMutWrite(k, v) => format!("indexmut {} {}", k, v),
            Op::HoldRef(kind, k, l) => format!("hold {} {} {}", kind, k, l.iter().map(|(a, b)| format!("{} {}", a, b)).collect::<Vec<_>>().join(" ")),
        });
    }
    s.push_str(" ; ");
    s.push_str(&match &h.finale {
        Finale::Drop => "drop".to_string(),
        Finale::IterForward => "iterfwd".to_string(),
        Finale::IterBackward => "iterback".to_string(),
        Finale::IterPattern(p) => format!("iterpattern {}", p),
        Finale::IterPartial(n, p) => format!("iterpartial {} {}", n, p),
    });
    s
}

pub fn history_from_text(s: &str) -> Option<History> {
    let mut parts = s.split(" ; ");
    let head: Vec<&str> = parts.next()?.split_whitespace().collect();
    let set = *head.first()? == "set";
    let cmp = match *head.get(1)? {
        "Natural" => Cmp::Natural,
        "Reversed" => Cmp::Reversed,
        "Mod7" => Cmp::Mod7,
        _ => return None,
    };
    let mut ops = Vec::new();
    let mut finale = Finale::Drop;
    for p in parts {
        let w: Vec<&str> = p.split_whitespace().collect();
        let num = |i: usize| -> Option<i32> { w.get(i)?.parse().ok() };
        match *w.first()? {
            "insert" => ops.push(Op::Insert(num(1)?, num(2)?)),
            "remove" => ops.push(Op::Remove(num(1)?)),
            "get" => ops.push(Op::Get(num(1)?)),
            "getmut" => ops.push(Op::GetMutWrite(num(1)?, num(2)?)),
            "findkey" => ops.push(Op::FindKey(num(1)?)),
            "contains" => ops.push(Op::Contains(num(1)?)),
            "next" => ops.push(Op::Next(num(1)?)),
            "prev" => ops.push(Op::Prev(num(1)?)),
            "min" => ops.push(Op::Min),
            "max" => ops.push(Op::Max),
            "len" => ops.push(Op::Len),
            "clear" => ops.push(Op::Clear),
            "extend" => {
                let mut v = Vec::new();
                let mut i = 1;
                while i + 1 < w.len() {
                    v.push((num(i)?, num(i + 1)?));
                    i += 2;
                }
                ops.push(Op::Extend(v));
            }
            "index" => ops.push(Op::Index(num(1)?)),
            "indexmut" => ops.push(Op::IndexMutWrite(num(1)?, num(2)?)),
            "hold" => {
                let mut v = Vec::new();
                let mut i = 3;
                while i + 1 < w.len() {
                    v.push((num(i)? as u8, num(i + 1)?));
                    i += 2;
                }
                ops.push(Op::HoldRef(num(1)? as u8, num(2)?, v));
            }
            "drop" => finale = Finale::Drop,
            "iterfwd" => finale = Finale::IterForward,
            "iterback" => finale = Finale::IterBackward,
            "iterpattern" => finale = Finale::IterPattern(w.get(1)?.parse().ok()?),
            "iterpartial" => finale = Finale::IterPartial(w.get(1)?.parse().ok()?, w.get(2)?.parse().ok()?),
            _ => return None,
        }
    }
    Some(History { set, cmp, ops, finale })
}

// ---------------------------------------------------------------------------------------------
// exhaustive exploration of every tree reachable over the key universe {0..K-1}

pub struct Exhaustive {
    pub states: u64,
    pub transitions: u64,
    pub iterations: u64,
    pub max_height: usize,
    pub failure: Option<(Failure, String)>,
    pub sample_states: Vec<String>,
}

fn rebuild(path: &[(u8, i32)]) -> (SplayTree<i32, Box<i32>, fn(&i32, &i32) -> Ordering>, BTreeMap<i32, i32>) {
    let mut t: SplayTree<i32, Box<i32>, fn(&i32, &i32) -> Ordering> = SplayTree::new(|a: &i32, b: &i32| a.cmp(b));
    let mut m = BTreeMap::new();
    for &(op, k) in path {
        apply_small(&mut t, &mut m, op, k).ok();
    }
    (t, m)
}

const SMALL_OPS: [&str; 8] = ["insert", "remove", "get", "find_key", "next", "prev", "contains", "get_mut"];

fn apply_small(t: &mut SplayTree<i32, Box<i32>, fn(&i32, &i32) -> Ordering>, m: &mut BTreeMap<i32, i32>, op: u8, k: i32) -> Result<(), String> {
    use std::ops::Bound::*;
    match op {
        0 => {
            let got = t.insert(k, Box::new(k + 100)).map(|b| *b);
            let want = m.insert(k, k + 100);
            if got != want {
                return Err(format!("insert({}) returned {:?}, model {:?}", k, got, want));
            }
        }
        1 => {
            let got = t.remove(&k).map(|b| *b);
            let want = m.remove(&k);
            if got != want {
                return Err(format!("remove({}) returned {:?}, model {:?}", k, got, want));
            }
        }
        2 => {
            let got = t.get(&k).map(|b| **b);
            let want = m.get(&k).cloned();
            if got != want {
                return Err(format!("get({}) returned {:?}, model {:?}", k, got, want));
            }
        }
        3 => {
            let got = t.find_key(&k).cloned();
            let want = m.get(&k).map(|_| k);
            if got != want {
                return Err(format!("find_key({}) returned {:?}, model {:?}", k, got, want));
            }
        }
        4 => {
            let got = t.next(&k).map(|(a, b)| (*a, **b));
            let want = m.range((Excluded(k), Unbounded)).next().map(|(a, b)| (*a, *b));
            if got != want {
                return Err(format!("next({}) returned {:?}, model {:?}", k, got, want));
            }
        }
        5 => {
            let got = t.prev(&k).map(|(a, b)| (*a, **b));
            let want = m.range((Unbounded, Excluded(k))).next_back().map(|(a, b)| (*a, *b));
            if got != want {
                return Err(format!("prev({}) returned {:?}, model {:?}", k, got, want));
            }
        }
        6 => {
            let got = t.contains(&k);
            if got != m.contains_key(&k) {
                return Err(format!("contains({}) returned {}", k, got));
            }
        }
        _ => {
            let got = t.get_mut(&k).map(|b| **b);
            let want = m.get(&k).cloned();
            if got != want {
                return Err(format!("get_mut({}) returned {:?}, model {:?}", k, got, want));
            }
        }
    }
    let got_min = t.min().cloned();
    let got_max = t.max().cloned();
    if got_min != m.keys().next().cloned() || got_max != m.keys().next_back().cloned() {
        return Err(format!("min/max = {:?}/{:?}, model keys {:?}", got_min, got_max, m.keys().collect::<Vec<_>>()));
    }
    if t.len() != m.len() || t.is_empty() != m.is_empty() {
        return Err(format!("len() = {}, model {}", t.len(), m.len()));
    }
    let dbg = format!("{:?}", t);
    let shape = parse_debug(&dbg).map_err(|e| format!("cannot parse debug rendering `{}`: {}", dbg, e))?;
    if shape.inorder != m.keys().cloned().collect::<Vec<_>>() {
        return Err(format!("in-order keys {:?}, model {:?}", shape.inorder, m.keys().collect::<Vec<_>>()));
    }
    Ok(())
}

fn path_text(path: &[(u8, i32)]) -> String {
    path.iter().map(|&(op, k)| format!("{}({})", SMALL_OPS[op as usize], k)).collect::<Vec<_>>().join(" ")
}

/// breadth-first over all states (identity: Debug rendering); from each state every operation with every key of
/// the universe extended by one key below and one above, and every consuming iteration pattern.
pub fn explore(k: i32) -> Exhaustive {
    let mut ex = Exhaustive { states: 0, transitions: 0, iterations: 0, max_height: 0, failure: None, sample_states: vec![] };
    let mut seen: HashMap<String, Vec<(u8, i32)>> = HashMap::new();
    let mut queue: VecDeque<Vec<(u8, i32)>> = VecDeque::new();
    seen.insert("None".to_string(), vec![]);
    queue.push_back(vec![]);
    while let Some(path) = queue.pop_front() {
        ex.states += 1;
        // transitions
        for op in 0..8u8 {
            let keys: Vec<i32> = if op == 0 { (0..k).collect() } else { (-1..=k).collect() };
            for key in keys {
                let (mut t, mut m) = rebuild(&path);
                ex.transitions += 1;
                if let Err(why) = apply_small(&mut t, &mut m, op, key) {
                    let mut p = path.clone();
                    p.push((op, key));
                    ex.failure = Some((Failure::new("model-mismatch", format!("after [{}]: {}", path_text(&p), why)), path_text(&p)));
                    return ex;
                }
                let dbg = format!("{:?}", t);
                if !seen.contains_key(&dbg) {
                    let mut p = path.clone();
                    p.push((op, key));
                    if let Ok(sh) = parse_debug(&dbg) {
                        ex.max_height = ex.max_height.max(sh.height);
                    }
                    if ex.sample_states.len() < 3 && p.len() >= 4 {
                        ex.sample_states.push(format!("[{}] -> {}", path_text(&p), dbg));
                    }
                    seen.insert(dbg, p.clone());
                    queue.push_back(p);
                }
            }
        }
        // consuming iteration: all direction patterns, full and every partial length, and clear/drop
        let (t0, m0) = rebuild(&path);
        let n = m0.len();
        drop(t0);
        let items: Vec<(i32, i32)> = m0.iter().map(|(a, b)| (*a, *b)).collect();
        for pattern in 0..(1u64 << n) {
            for stop_after in [n + 1, n / 2] {
                let (t, _) = rebuild(&path);
                ex.iterations += 1;
                let mut it = t.into_iter();
                let (mut lo, mut hi) = (0usize, n);
                for i in 0..stop_after {
                    let hint = it.size_hint();
                    let back = pattern >> i & 1 == 1;
                    let got = if back { it.next_back() } else { it.next() }.map(|(a, b)| (a, *b));
                    let want = if lo < hi {
                        Some(if back {
                            hi -= 1;
                            items[hi]
                        } else {
                            lo += 1;
                            items[lo - 1]
                        })
                    } else {
                        None
                    };
                    let want_hint = if got.is_some() { hi - lo + 1 } else { 0 };
                    if got != want || hint != (want_hint, Some(want_hint)) {
                        ex.failure = Some((
                            Failure::new("iteration", format!("tree built by [{}], direction pattern {:b}: element {} is {:?} (size_hint before {:?}), model {:?}", path_text(&path), pattern, i, got, hint, want)),
                            path_text(&path),
                        ));
                        return ex;
                    }
                }
            }
        }
        let (mut t, _) = rebuild(&path);
        t.clear();
        if t.len() != 0 || !t.is_empty() || format!("{:?}", t) != "None" || t.min().is_some() {
            ex.failure = Some((Failure::new("clear", format!("tree built by [{}] is not empty after clear()", path_text(&path))), path_text(&path)));
            return ex;
        }
    }
    ex
}
