//! C13, C14, C15: the public intermediate stages (fill_queue, subdivide, event order, segment order).
use crate::exec::*;
use crate::gen::Case;
use crate::geom::*;
use crate::props::result::panic_failure;
use crate::runner::{Failure, Obs};
use geo_booleanop::boolean::compare_segments::compare_segments;
use geo_booleanop::boolean::fill_queue::fill_queue;
use geo_booleanop::boolean::subdivide_segments::subdivide;
use geo_booleanop::boolean::sweep_event::{EdgeType, ResultTransition, SweepEvent};
use geo_booleanop::boolean::{BoundingBox, Operation};
use geo_types::Coord;
use std::cmp::Ordering;
use std::rc::{Rc, Weak};

pub type Ev = Rc<SweepEvent<f64>>;

pub struct StageRun {
    /// events as created by fill_queue (heap order, i.e. arbitrary)
    pub pre: Vec<Ev>,
    pub sbbox: BoundingBox<f64>,
    pub cbbox: BoundingBox<f64>,
    pub trivial: bool,
    /// processed events: popped minus the one that triggered the early break
    pub processed: Vec<Ev>,
    pub early_break: bool,
    /// events left in the queue (kept alive: partners are only weakly linked)
    pub rest: Vec<Ev>,
}

fn empty_box() -> BoundingBox<f64> {
    let inf = f64::INFINITY;
    BoundingBox { min: Coord { x: inf, y: inf }, max: Coord { x: -inf, y: -inf } }
}

pub fn run_stage(a: &MP, b: &MP, op: Operation) -> Result<StageRun, PanicInfo> {
    run_stage_with(a, b, op, &mut |_, _, _| Ok(())).map(|r| r.0)
}

/// `pre_hook` sees the events exactly as fill_queue created them (subdivision relinks them afterwards)
pub fn run_stage_with(a: &MP, b: &MP, op: Operation, pre_hook: &mut dyn FnMut(&[Ev], &BoundingBox<f64>, &BoundingBox<f64>) -> Result<(), Failure>) -> Result<(StageRun, Result<(), Failure>), PanicInfo> {
    let budget = event_bound(n_edges(a, b));
    guarded(budget, || {
        let mut sb = empty_box();
        let mut cb = empty_box();
        let mut q = fill_queue(&a.0, &b.0, &mut sb, &mut cb, op);
        let pre: Vec<Ev> = q.iter().cloned().collect();
        let hook_result = pre_hook(&pre, &sb, &cb);
        let trivial = sb.min.x > cb.max.x || cb.min.x > sb.max.x || sb.min.y > cb.max.y || cb.min.y > sb.max.y;
        let mut processed = Vec::new();
        let mut early_break = false;
        let mut sorted_keep: Vec<Ev> = Vec::new();
        if !trivial {
            let sorted = subdivide(&mut q, &sb, &cb, op);
            sorted_keep = sorted.clone();
            let rightbound = sb.max.x.min(cb.max.x);
            processed = sorted.clone();
            if let Some(last) = sorted.last() {
                if (op == Operation::Intersection && last.point.x > rightbound) || (op == Operation::Difference && last.point.x > sb.max.x) {
                    processed.pop();
                    early_break = true;
                }
            }
        }
        let mut rest: Vec<Ev> = q.into_vec();
        rest.extend(sorted_keep);
        (StageRun { pre, sbbox: sb, cbbox: cb, trivial, processed, early_break, rest }, hook_result)
    })
}

fn seg_of(e: &Ev) -> Option<Seg> {
    e.get_other_event().map(|o| (e.point, o.point))
}

fn p64<F: geo_booleanop::boolean::Float>(c: Coord<F>) -> P {
    pt(c.x.into(), c.y.into())
}

fn seg_of_g<F: geo_booleanop::boolean::Float>(e: &Rc<SweepEvent<F>>) -> Option<Seg> {
    e.get_other_event().map(|o| (p64(e.point), p64(o.point)))
}

fn ctx_str(op: Operation) -> String {
    format!("op={}", op_name(op))
}

// ---------------------------------------------------------------------------------------------
// C13

pub fn check_fill(case: &Case, op: Operation, pre: &[Ev], sbbox: &BoundingBox<f64>, cbbox: &BoundingBox<f64>) -> Result<(), Failure> {
    let (ea, eb) = (mp_edges(&case.a), mp_edges(&case.b));
    let fail = |clause: &str, why: String| Failure::new(clause, format!("{}: {}", ctx_str(op), why));
    if pre.len() != 2 * (ea.len() + eb.len()) {
        return Err(fail("fill-count", format!("fill_queue created {} events for {} non-degenerate edges", pre.len(), ea.len() + eb.len())));
    }
    let mut lefts = 0;
    for e in pre {
        let o = match e.get_other_event() {
            Some(o) => o,
            None => return Err(fail("fill-link", format!("event at ({},{}) has no partner", e.point.x, e.point.y))),
        };
        match o.get_other_event() {
            Some(back) if Rc::ptr_eq(&back, e) => {}
            _ => return Err(fail("fill-link", format!("event at ({},{}) is not linked back by its partner", e.point.x, e.point.y))),
        }
        if e.is_left() == o.is_left() {
            return Err(fail("fill-left-flag", format!("pair ({},{})-({},{}) does not have exactly one left event", e.point.x, e.point.y, o.point.x, o.point.y)));
        }
        if e.is_left() {
            lefts += 1;
            if !e.is_before(&o) {
                return Err(fail("fill-left-order", format!("left event ({},{}) does not precede its right event ({},{})", e.point.x, e.point.y, o.point.x, o.point.y)));
            }
            let s = (e.point, o.point);
            let edges = if e.is_subject { &ea } else { &eb };
            if !edges.iter().any(|&t| same_seg(s, t)) {
                return Err(fail("fill-not-an-edge", format!("event pair ({},{})-({},{}) is not an edge of its operand", s.0.x, s.0.y, s.1.x, s.1.y)));
            }
        }
    }
    if lefts != ea.len() + eb.len() {
        return Err(fail("fill-count", format!("{} left events for {} edges", lefts, ea.len() + eb.len())));
    }
    for (name, bb, edges) in [("subject", sbbox, &ea), ("clipping", cbbox, &eb)] {
        let want = bbox_of(edges).unwrap_or((f64::INFINITY, f64::INFINITY, f64::NEG_INFINITY, f64::NEG_INFINITY));
        let got = (bb.min.x, bb.min.y, bb.max.x, bb.max.y);
        if got != want {
            return Err(fail("fill-bbox", format!("{} bounding box {:?}, expected {:?}", name, got, want)));
        }
    }
    Ok(())
}

pub fn c13(case: &Case, obs: &mut Obs) -> Result<(), Failure> {
    let tol = case.tol();
    let (ea, eb) = (mp_edges(&case.a), mp_edges(&case.b));
    for op in OPS {
        let (run, filled) = run_stage_with(&case.a, &case.b, op, &mut |pre, sb, cb| check_fill(case, op, pre, sb, cb)).map_err(|p| panic_failure(op_name(op), &p))?;
        filled?;
        if run.trivial {
            obs.class("trivial-path");
            continue;
        }
        let fail = |clause: &str, why: String| Failure::new(clause, format!("{}: {}", ctx_str(op), why));
        let lefts: Vec<Ev> = run.processed.iter().filter(|e| e.is_left()).cloned().collect();
        let mut segs: Vec<Seg> = Vec::with_capacity(lefts.len());
        let mut done: Vec<bool> = Vec::with_capacity(lefts.len());
        for e in &lefts {
            let o = match e.get_other_event() {
                Some(o) => o,
                None => return Err(fail("sub-link", format!("left event at ({},{}) has no partner", e.point.x, e.point.y))),
            };
            match o.get_other_event() {
                Some(back) if Rc::ptr_eq(&back, e) => {}
                _ => return Err(fail("sub-link", format!("left event at ({},{}) is not linked back by its right event", e.point.x, e.point.y))),
            }
            if o.is_left() || !e.is_before(&o) {
                return Err(fail("sub-left-order", format!("sub-segment ({},{})-({},{}): left event does not precede its right event", e.point.x, e.point.y, o.point.x, o.point.y)));
            }
            if e.point == o.point {
                return Err(fail("sub-zero-length", format!("sub-segment of zero length at ({},{})", e.point.x, e.point.y)));
            }
            segs.push((e.point, o.point));
            done.push(run.processed.iter().any(|x| Rc::ptr_eq(x, &o)));
        }
        let complete = !run.early_break;
        if lefts.len() > ea.len() + eb.len() {
            obs.nontrivial = true;
            obs.class("divided");
        }
        // planarity among sub-segments whose both events were processed
        for i in 0..segs.len() {
            if !done[i] {
                continue;
            }
            for j in i + 1..segs.len() {
                if !done[j] {
                    continue;
                }
                let (s, t) = (segs[i], segs[j]);
                if s.0.x.max(s.1.x) < t.0.x.min(t.1.x) || t.0.x.max(t.1.x) < s.0.x.min(s.1.x) {
                    continue;
                }
                if same_seg(s, t) {
                    if lefts[i].is_subject == lefts[j].is_subject {
                        return Err(fail("twin-same-operand", format!("two coinciding sub-segments ({},{})-({},{}) belong to the same operand", s.0.x, s.0.y, s.1.x, s.1.y)));
                    }
                    obs.class("twin-pair");
                    continue;
                }
                let bad = if tol == 0.0 {
                    bad_contact(s, t)
                } else {
                    // contacts closer than tol to a shared endpoint are ignored
                    bad_contact(s, t) && {
                        let shared: Vec<P> = [s.0, s.1].iter().cloned().filter(|p| *p == t.0 || *p == t.1).collect();
                        match approx_contact(s, t) {
                            Some(c) => !shared.iter().any(|p| dist(*p, c) <= tol),
                            None => true,
                        }
                    }
                };
                if bad {
                    return Err(fail(
                        "planarity",
                        format!("sub-segments ({},{})-({},{}) and ({},{})-({},{}) cross, touch in an interior point or overlap partially", s.0.x, s.0.y, s.1.x, s.1.y, t.0.x, t.0.y, t.1.x, t.1.y),
                    ));
                }
            }
        }
        // every sub-segment lies on an edge of its operand; complete sweeps: the pieces of every edge chain over it
        for (subj, edges) in [(true, &ea), (false, &eb)] {
            let mine: Vec<Seg> = lefts.iter().zip(segs.iter()).filter(|(e, _)| e.is_subject == subj).map(|(_, s)| *s).collect();
            let on = |e: Seg, p: P| if tol == 0.0 { on_seg(e, p) } else { dist_point_seg(p, e) <= tol };
            let mut used = 0usize;
            for &e in edges.iter() {
                let pieces: Vec<Seg> = mine.iter().cloned().filter(|s| on(e, s.0) && on(e, s.1) && (tol == 0.0 || abs_sin(e, *s) < 1e-3)).collect();
                if complete {
                    if !chain_covers(&pieces, e) {
                        return Err(fail("coverage", format!("the sub-segments on input edge ({},{})-({},{}) do not chain from one endpoint to the other: {:?}", e.0.x, e.0.y, e.1.x, e.1.y, pieces)));
                    }
                    used += pieces.len();
                }
            }
            for s in &mine {
                if !edges.iter().any(|&e| on(e, s.0) && on(e, s.1)) {
                    return Err(fail("sub-off-edge", format!("sub-segment ({},{})-({},{}) does not lie on an edge of its operand", s.0.x, s.0.y, s.1.x, s.1.y)));
                }
            }
            if complete && used != mine.len() && tol == 0.0 {
                return Err(fail("coverage", format!("{} sub-segments of the {} operand for edges that account for {}", mine.len(), if subj { "subject" } else { "clipping" }, used)));
            }
        }
    }
    Ok(())
}

fn approx_contact(s: Seg, t: Seg) -> Option<P> {
    if let Some(p) = approx_intersection(s, t) {
        return Some(p);
    }
    for p in [t.0, t.1] {
        if strictly_inside(s, p) {
            return Some(p);
        }
    }
    for p in [s.0, s.1] {
        if strictly_inside(t, p) {
            return Some(p);
        }
    }
    None
}

/// the pieces chain (bitwise) from one endpoint of e to the other, each used once
fn chain_covers(pieces: &[Seg], e: Seg) -> bool {
    if pieces.is_empty() {
        return false;
    }
    let mut cur = e.0;
    let mut used = vec![false; pieces.len()];
    for _ in 0..pieces.len() {
        let next = (0..pieces.len()).find(|&i| !used[i] && (pieces[i].0 == cur || pieces[i].1 == cur));
        match next {
            Some(i) => {
                used[i] = true;
                cur = if pieces[i].0 == cur { pieces[i].1 } else { pieces[i].0 };
            }
            None => return false,
        }
    }
    cur == e.1
}

// ---------------------------------------------------------------------------------------------
// C14

/// the input edge s carries the sub-segment p-q: exactly collinear, or (inexact families, whose division points are
/// computed) both ends within the tolerance of s
fn carrier(s: Seg, p: P, q: P, tol: f64) -> bool {
    (orient(s.0, s.1, p) == 0.0 && orient(s.0, s.1, q) == 0.0) || (tol > 0.0 && dist_point_seg(p, s) <= tol && dist_point_seg(q, s) <= tol)
}

pub fn c14(case: &Case, obs: &mut Obs) -> Result<(), Failure> {
    let tol = case.tol();
    let (ea, eb) = (mp_edges(&case.a), mp_edges(&case.b));
    for op in OPS {
        let run = run_stage(&case.a, &case.b, op).map_err(|p| panic_failure(op_name(op), &p))?;
        if run.trivial {
            continue;
        }
        let lefts: Vec<Ev> = run.processed.iter().filter(|e| e.is_left()).cloned().collect();
        let segs: Vec<Seg> = lefts.iter().map(|e| seg_of(e).unwrap()).collect();
        let mut any_in_result = false;
        let mut any_twin = false;
        let mut any_vertical_contact = false;
        let fail = |clause: &str, i: usize, why: String| {
            let s = segs[i];
            Failure::new(clause, format!("{}: sub-segment ({},{})-({},{}) of the {} operand: {}", ctx_str(op), s.0.x, s.0.y, s.1.x, s.1.y, if lefts[i].is_subject { "subject" } else { "clipping" }, why))
        };
        for (i, e) in lefts.iter().enumerate() {
            let (p, q) = segs[i];
            if p == q {
                continue;
            }
            // A sub-segment whose right event was not processed (the sweep of intersection / difference stopped early) may
            // still be cut further to the right: its flags describe it next to its left end only, so the side points
            // are taken before the first contact with any other input edge.
            let fully = match e.get_other_event() {
                Some(o) => run.processed.iter().any(|x| Rc::ptr_eq(x, &o)),
                None => false,
            };
            let mut frac = 0.5;
            if !fully {
                let mut tmin = 1.0f64;
                for &s in ea.iter().chain(eb.iter()) {
                    if carrier(s, p, q, tol) || !touches(s, (p, q)) {
                        continue;
                    }
                    let c = approx_intersection(s, (p, q)).or_else(|| [s.0, s.1].iter().cloned().find(|v| on_seg((p, q), *v)));
                    if let Some(c) = c {
                        let t = if (q.x - p.x).abs() >= (q.y - p.y).abs() { (c.x - p.x) / (q.x - p.x) } else { (c.y - p.y) / (q.y - p.y) };
                        if t > 1e-9 && t < tmin {
                            tmin = t;
                        }
                    }
                }
                frac = tmin / 2.0;
                obs.count("subsegments_not_fully_processed", 1);
            }
            let m = pt(p.x + (q.x - p.x) * frac, p.y + (q.y - p.y) * frac);
            let vertical = p.x == q.x;
            let twin = (0..lefts.len()).find(|&j| j != i && same_seg(segs[j], segs[i]));
            let scale = (q.x - p.x).abs().max((q.y - p.y).abs());
            let mut d = scale / 8.0;
            let mut ok = false;
            let (mut above, mut below) = (m, m);
            for _ in 0..24 {
                if vertical {
                    // a vertical edge's flag describes its right side: "below" = right, "above" = left
                    above = pt(m.x - d, m.y);
                    below = pt(m.x + d, m.y);
                } else {
                    above = pt(m.x, m.y + d);
                    below = pt(m.x, m.y - d);
                }
                let probe = (above, below);
                let degenerate = above == m || below == m;
                let clear = !degenerate
                    && (0..segs.len()).all(|j| j == i || Some(j) == twin || same_seg(segs[j], segs[i]) || !touches(segs[j], probe))
                    && (tol == 0.0 || d >= 1e3 * tol)
                    && ea.iter().chain(eb.iter()).all(|&s| carrier(s, p, q, tol) || !touches(s, probe));
                if clear {
                    ok = true;
                    break;
                }
                d /= 2.0;
            }
            // the probe must cross e itself (m is only approximately on e)
            if !ok || !touches((p, q), (above, below)) {
                obs.count("subsegments_skipped_unclear_sidepoints", 1);
                if !ok {
                    // why?
                    let probe = (above, below);
                    let by_sub = (0..segs.len()).any(|j| j != i && Some(j) != twin && !same_seg(segs[j], segs[i]) && touches(segs[j], probe));
                    let by_in = ea.iter().chain(eb.iter()).any(|&s| !(orient(s.0, s.1, p) == 0.0 && orient(s.0, s.1, q) == 0.0) && touches(s, probe));
                    obs.count(if above == m || below == m { "skip_degenerate" } else if by_sub && by_in { "skip_both" } else if by_sub { "skip_by_subsegment" } else { "skip_by_input_edge" }, 1);
                    if vertical { obs.count("skip_vertical", 1); }
                    if !done_flag(&run, e) { obs.count("skip_not_fully_processed", 1); }
                } else {
                    obs.count("skip_probe_misses_e", 1);
                }
                continue;
            }
            let (ex, ey) = if e.is_subject { (&ea, &eb) } else { (&eb, &ea) };
            let (xa, xb) = (evenodd(ex, above), evenodd(ex, below));
            let (ya, yb) = (evenodd(ey, above), evenodd(ey, below));
            if [xa, xb, ya, yb].iter().any(|s| *s == Side::On) {
                obs.count("subsegments_skipped_unclear_sidepoints", 1);
                continue;
            }
            let (xa, xb, ya, yb) = (xa == Side::In, xb == Side::In, ya == Side::In, yb == Side::In);
            if xa == xb {
                // not a boundary of its own operand according to the oracle: only possible for self-overlapping input
                obs.count("subsegments_skipped_not_boundary", 1);
                continue;
            }
            obs.count("subsegments_checked", 1);
            let (sa_, sb_, ca_, cb_) = if e.is_subject { (xa, xb, ya, yb) } else { (ya, yb, xa, xb) };
            let ra = opf(op, sa_, ca_);
            let rb = opf(op, sb_, cb_);
            if vertical {
                obs.class("vertical-subsegment");
                let c = ex.iter().any(|&s| !same_seg(s, (p, q)) && (strictly_inside((p, q), s.0) || strictly_inside((p, q), s.1) || strictly_inside(s, p) || strictly_inside(s, q)));
                if c {
                    any_vertical_contact = true;
                }
            }
            if e.is_in_out() != xb {
                return Err(fail("in-out", i, format!("in_out = {} but the point just below (vertical: right of) it is {} its own operand", e.is_in_out(), if xb { "inside" } else { "outside" })));
            }
            match twin {
                None => {
                    if ya != yb {
                        obs.count("subsegments_skipped_other_changes", 1);
                        continue;
                    }
                    if e.is_other_in_out() != !yb {
                        return Err(fail("other-in-out", i, format!("other_in_out = {} but the other operand is {} at it", e.is_other_in_out(), if yb { "inside" } else { "outside" })));
                    }
                    if e.get_edge_type() != EdgeType::Normal {
                        return Err(fail("edge-type", i, format!("edge type {:?} although no coincident sub-segment exists", e.get_edge_type())));
                    }
                    let exp_in = ra != rb;
                    if e.is_in_result() != exp_in {
                        return Err(fail("in-result", i, format!("in_result = {} but the result is {} below and {} above it", e.is_in_result(), rb, ra)));
                    }
                    if exp_in {
                        any_in_result = true;
                        let exp_t = if ra { ResultTransition::OutIn } else { ResultTransition::InOut };
                        if e.get_result_transition() != exp_t {
                            return Err(fail("transition", i, format!("result transition {:?}, expected {:?}", e.get_result_transition(), exp_t)));
                        }
                    }
                }
                Some(j) => {
                    any_twin = true;
                    obs.class("twin-pair");
                    if j > i {
                        let t = &lefts[j];
                        let exp_in = ra != rb;
                        let n_in = e.is_in_result() as u8 + t.is_in_result() as u8;
                        if n_in != exp_in as u8 {
                            return Err(fail("twin-in-result", i, format!("{} of the two coincident sub-segments are in the result, expected {} (result below {}, above {})", n_in, exp_in as u8, rb, ra)));
                        }
                        if exp_in {
                            any_in_result = true;
                            let carrier = if e.is_in_result() { e } else { t };
                            let exp_t = if ra { ResultTransition::OutIn } else { ResultTransition::InOut };
                            if carrier.get_result_transition() != exp_t {
                                return Err(fail("twin-transition", i, format!("the carrier of the coincident pair has transition {:?}, expected {:?}", carrier.get_result_transition(), exp_t)));
                            }
                        }
                    }
                }
            }
            // prev_in_result
            let pr = e.get_prev_in_result();
            if let Some(pr) = &pr {
                match lefts.iter().position(|l| Rc::ptr_eq(l, pr)) {
                    None => return Err(fail("prev-in-result", i, "the recorded lower result edge is not a processed left event".to_string())),
                    Some(j) => {
                        if !pr.is_in_result() {
                            return Err(fail("prev-in-result", i, format!("the recorded lower result edge ({},{})-({},{}) is not in the result", segs[j].0.x, segs[j].0.y, segs[j].1.x, segs[j].1.y)));
                        }
                        if segs[j].0.x == segs[j].1.x {
                            return Err(fail("prev-in-result", i, "the recorded lower result edge is vertical".to_string()));
                        }
                        if !pr.is_before(e) {
                            return Err(fail("prev-in-result", i, "the recorded lower result edge is not earlier in the event order".to_string()));
                        }
                    }
                }
            }
            if e.is_in_result() && !vertical {
                let rec = pr.as_ref().map(|r| r.get_result_transition() == ResultTransition::OutIn).unwrap_or(false);
                if rb != rec {
                    return Err(fail(
                        "prev-in-result-function",
                        i,
                        format!("the region just below it is {} the result, but the recorded lower result edge {}", if rb { "inside" } else { "outside" }, match &pr {
                            Some(r) => format!("at ({},{}) has transition {:?}", r.point.x, r.point.y, r.get_result_transition()),
                            None => "is absent".to_string(),
                        }),
                    ));
                }
            }
        }
        if any_in_result && (any_twin || any_vertical_contact) {
            obs.nontrivial = true;
        }
    }
    Ok(())
}

// ---------------------------------------------------------------------------------------------
// C15

/// reference event order where it decides: Some(true) = a before b
fn reference_before<F: geo_booleanop::boolean::Float>(a: &Rc<SweepEvent<F>>, b: &Rc<SweepEvent<F>>) -> Option<bool> {
    let (pa, pb) = (p64(a.point), p64(b.point));
    if pa.x != pb.x {
        return Some(pa.x < pb.x);
    }
    if pa.y != pb.y {
        return Some(pa.y < pb.y);
    }
    if a.is_left() != b.is_left() {
        return Some(!a.is_left());
    }
    let (qa, qb) = (p64(a.get_other_event()?.point), p64(b.get_other_event()?.point));
    let o = if a.is_left() { orient(pa, qa, qb) } else { orient(qa, pa, qb) };
    if o == 0.0 {
        None
    } else {
        Some(o > 0.0)
    }
}

/// vertical order of two non-crossing segments with overlapping x-extent: Some(true) = s below t
fn reference_below(s: Seg, t: Seg) -> Option<bool> {
    if proper_cross(s, t) {
        return None;
    }
    let (sv, tv) = (s.0.x == s.1.x, t.0.x == t.1.x);
    let sgn = |x: f64| if x > 0.0 { 1 } else if x < 0.0 { -1 } else { 0 };
    if sv && tv {
        // collinear (or at different x): the orientation test does not separate them; the code orders such pairs by
        // operand / age, which is its documented behaviour and never reaches the sweep line for valid input
        return None;
    }
    if sv || tv {
        // position of the vertical one relative to the other's line
        let (v, n, v_is_s) = if sv { (s, t, true) } else { (t, s, false) };
        let (l, r) = if n.0.x < n.1.x { (n.0, n.1) } else { (n.1, n.0) };
        if v.0.x < l.x || v.0.x > r.x {
            return None;
        }
        let (a, b) = (sgn(orient(l, r, v.0)), sgn(orient(l, r, v.1)));
        if a * b < 0 || (a == 0 && b == 0) {
            return None;
        }
        let v_above = a + b > 0;
        return Some(if v_is_s { !v_above } else { v_above });
    }
    let (sl, sr) = if s.0.x < s.1.x { (s.0, s.1) } else { (s.1, s.0) };
    let (tl, tr) = if t.0.x < t.1.x { (t.0, t.1) } else { (t.1, t.0) };
    let (xl, xr) = (sl.x.max(tl.x), sr.x.min(tr.x));
    if xl > xr {
        return None;
    }
    // sign > 0: s above t
    let mut signs: Vec<i32> = Vec::new();
    if sl.x == xl {
        signs.push(sgn(orient(tl, tr, sl)));
    }
    if tl.x == xl {
        signs.push(-sgn(orient(sl, sr, tl)));
    }
    if sr.x == xr {
        signs.push(sgn(orient(tl, tr, sr)));
    }
    if tr.x == xr {
        signs.push(-sgn(orient(sl, sr, tr)));
    }
    let pos = signs.iter().any(|&x| x > 0);
    let neg = signs.iter().any(|&x| x < 0);
    if pos == neg {
        return None;
    }
    Some(neg)
}

pub fn check_order(evs: &[Ev], tag: &str, obs: &mut Obs, bits: u64) -> Result<(), Failure> {
    check_order_mode(evs, tag, obs, bits, false)
}

pub fn check_order_mode<F: geo_booleanop::boolean::Float>(evs: &[Rc<SweepEvent<F>>], tag: &str, obs: &mut Obs, bits: u64, float_mode: bool) -> Result<(), Failure> {
    check_order_ex(evs, tag, obs, bits, float_mode, true)
}

/// `segments == false`: the event order only
pub fn check_order_ex<F: geo_booleanop::boolean::Float>(evs: &[Rc<SweepEvent<F>>], tag: &str, obs: &mut Obs, bits: u64, float_mode: bool, segments: bool) -> Result<(), Failure> {
    let n = evs.len();
    let fail = |clause: &str, why: String| Failure::new(clause, format!("{} events: {}", tag, why));
    let show = |e: &Rc<SweepEvent<F>>| {
        let o = e.get_other_event().map(|o| o.point).unwrap_or(e.point);
        format!("[{} ({},{})->({},{}) {}]", if e.is_left() { "L" } else { "R" }, e.point.x, e.point.y, o.x, o.y, if e.is_subject { "subj" } else { "clip" })
    };
    let mut m = vec![Ordering::Equal; n * n];
    for i in 0..n {
        for j in 0..n {
            m[i * n + j] = evs[i].cmp(&evs[j]);
        }
    }
    let mut same_point = false;
    let mut collinear = false;
    for i in 0..n {
        for j in 0..n {
            if i == j {
                continue;
            }
            if m[i * n + j] == Ordering::Equal {
                return Err(fail("events-equal", format!("distinct events compare Equal: {} {}", show(&evs[i]), show(&evs[j]))));
            }
            if m[i * n + j] != m[j * n + i].reverse() {
                return Err(fail("events-antisymmetry", format!("cmp(a,b) = {:?} but cmp(b,a) = {:?}: {} {}", m[i * n + j], m[j * n + i], show(&evs[i]), show(&evs[j]))));
            }
            if evs[i].point == evs[j].point {
                same_point = true;
            }
            match reference_before(&evs[i], &evs[j]) {
                Some(before) => {
                    if evs[i].is_before(&evs[j]) != before {
                        return Err(fail("events-reference-order", format!("{} should come {} {}", show(&evs[i]), if before { "before" } else { "after" }, show(&evs[j]))));
                    }
                }
                None => collinear = true,
            }
        }
    }
    // transitivity: all triples up to 60 events, a deterministic sample of triples beyond
    if n <= 60 {
        for i in 0..n {
            for j in 0..n {
                if i == j || m[i * n + j] != Ordering::Less {
                    continue;
                }
                for k in 0..n {
                    if k != i && k != j && m[j * n + k] == Ordering::Less && m[i * n + k] != Ordering::Less {
                        return Err(fail("events-transitivity", format!("a<b, b<c but not a<c: {} {} {}", show(&evs[i]), show(&evs[j]), show(&evs[k]))));
                    }
                }
            }
        }
    } else {
        let mut s = bits | 1;
        for _ in 0..20_000 {
            let mut nx = || {
                s ^= s << 13;
                s ^= s >> 7;
                s ^= s << 17;
                (s % n as u64) as usize
            };
            let (i, j, k) = (nx(), nx(), nx());
            if i != j && j != k && i != k && m[i * n + j] == Ordering::Less && m[j * n + k] == Ordering::Less && m[i * n + k] != Ordering::Less {
                return Err(fail("events-transitivity", format!("a<b, b<c but not a<c: {} {} {}", show(&evs[i]), show(&evs[j]), show(&evs[k]))));
            }
        }
    }
    if same_point {
        obs.class("events-at-one-point");
    }
    if collinear {
        obs.class("collinear-events");
    }
    if same_point || collinear {
        obs.nontrivial = true;
    }
    if !segments {
        return Ok(());
    }
    // segment order on left events with overlapping x-extent
    let lefts: Vec<&Rc<SweepEvent<F>>> = evs.iter().filter(|e| e.is_left() && e.get_other_event().is_some()).take(48).collect();
    for i in 0..lefts.len() {
        for j in 0..lefts.len() {
            let (s, t) = (seg_of_g(lefts[i]).unwrap(), seg_of_g(lefts[j]).unwrap());
            let c1 = compare_segments(lefts[i], lefts[j]);
            if i == j {
                if c1 != Ordering::Equal {
                    return Err(fail("segments-identity", format!("a segment does not compare Equal to itself: {}", show(lefts[i]))));
                }
                continue;
            }
            if s.1.x < t.0.x || t.1.x < s.0.x {
                continue;
            }
            let c2 = compare_segments(lefts[j], lefts[i]);
            if c1 == Ordering::Equal {
                return Err(fail("segments-equal", format!("distinct segments compare Equal: {} {}", show(lefts[i]), show(lefts[j]))));
            }
            if c1 != c2.reverse() {
                return Err(fail("segments-antisymmetry", format!("compare_segments(a,b) = {:?} but (b,a) = {:?}: {} {}", c1, c2, show(lefts[i]), show(lefts[j]))));
            }
            // Where one segment's right endpoint lies exactly on the other's line (e.g. a shared right endpoint) the
            // code decides by a *computed* intersection point; on exact-arithmetic inputs that is reliable, for
            // near-parallel float segments it is not (DESIGN.md §2, same root cause as K1-K4), so no claim is made there.
            let fragile = float_mode && (orient(s.0, s.1, t.1) == 0.0 || orient(t.0, t.1, s.1) == 0.0);
            if fragile {
                obs.count("segment_pairs_skipped_fragile_float_configuration", 1);
                continue;
            }
            if let Some(below) = reference_below(s, t) {
                obs.count("segment_pairs_with_vertical_order", 1);
                if (c1 == Ordering::Less) != below {
                    return Err(fail("segments-vertical-order", format!("{} is {} {} but compare_segments says {:?}", show(lefts[i]), if below { "below" } else { "above" }, show(lefts[j]), c1)));
                }
            }
        }
    }
    Ok(())
}

pub fn c15(case: &Case, obs: &mut Obs) -> Result<(), Failure> {
    let op = OPS[(case.bits % 4) as usize];
    let cap = |v: &[Ev]| -> Vec<Ev> { v.iter().take(160).cloned().collect() };
    let bits = case.bits;
    let mut pre_obs = Obs::default();
    let (run, pre_result) = run_stage_with(&case.a, &case.b, op, &mut |pre, _, _| check_order(&cap(pre), "queue (before subdivision)", &mut pre_obs, bits)).map_err(|p| panic_failure(op_name(op), &p))?;
    pre_result.map_err(|f| Failure::new(f.clause, format!("{}: {}", ctx_str(op), f.detail)))?;
    obs.nontrivial |= pre_obs.nontrivial;
    for c in pre_obs.classes {
        obs.class(c);
    }
    for (k, n) in pre_obs.counters {
        obs.count(k, n);
    }
    if !run.trivial {
        check_order(&cap(&run.processed), "processed (after subdivision)", obs, case.bits).map_err(|f| Failure::new(f.clause, format!("{}: {}", ctx_str(op), f.detail)))?;
    }
    Ok(())
}

/// a generated star of edges around one vertex (as fill_queue would create them)
#[derive(Clone, Debug, PartialEq)]
pub struct Star {
    pub centre: (i32, i32),
    /// (dx, dy, is_subject); (0,0) is skipped
    pub spokes: Vec<(i32, i32, bool)>,
}

pub fn star_events(st: &Star) -> Vec<Ev> {
    let c = pt(st.centre.0 as f64, st.centre.1 as f64);
    let mut evs = Vec::new();
    let mut seen: Vec<(i64, i64, bool)> = Vec::new();
    for (k, &(dx, dy, subj)) in st.spokes.iter().enumerate() {
        if dx == 0 && dy == 0 {
            continue;
        }
        // a valid operand has no two overlapping edges: at most one spoke per direction and operand
        let g = gcd(dx.unsigned_abs() as i64, dy.unsigned_abs() as i64);
        let dir = (dx as i64 / g, dy as i64 / g, subj);
        if seen.contains(&dir) {
            continue;
        }
        seen.push(dir);
        let p = pt(c.x + dx as f64, c.y + dy as f64);
        let e1 = SweepEvent::new_rc(k as u32 + 1, c, false, Weak::new(), subj, true);
        let e2 = SweepEvent::new_rc(k as u32 + 1, p, false, Rc::downgrade(&e1), subj, true);
        e1.set_other_event(&e2);
        if e1 < e2 {
            e2.set_left(true)
        } else {
            e1.set_left(true)
        }
        evs.push(e1);
        evs.push(e2);
    }
    evs
}

fn gcd(a: i64, b: i64) -> i64 {
    if b == 0 {
        a.max(1)
    } else {
        gcd(b, a % b)
    }
}

pub fn check_star(st: &Star, obs: &mut Obs) -> Result<(), Failure> {
    let evs = star_events(st);
    obs.class("event-star");
    check_order(&evs, "star", obs, 0x9e3779b97f4a7c15)
}

/// the four events of two segments as fill_queue would create them (C15 on class-drawn segment pairs: T-contacts,
/// common endpoints, collinear configurations with coordinates up to 2^25)
pub fn check_segpair_order(d: &crate::props::segpair::SegPair, obs: &mut Obs) -> Result<(), Failure> {
    let mk = |s: ((f64, f64), (f64, f64)), subj: bool, id: u32| -> Vec<Ev> {
        let (a, b) = (pt(s.0 .0, s.0 .1), pt(s.1 .0, s.1 .1));
        if a == b {
            return vec![];
        }
        let e1 = SweepEvent::new_rc(id, a, false, Weak::new(), subj, true);
        let e2 = SweepEvent::new_rc(id, b, false, Rc::downgrade(&e1), subj, true);
        e1.set_other_event(&e2);
        if e1 < e2 {
            e2.set_left(true)
        } else {
            e1.set_left(true)
        }
        vec![e1, e2]
    };
    // same-operand collinear overlapping segments cannot come from a valid operand
    let (s1, s2) = ((pt(d.s1.0 .0, d.s1.0 .1), pt(d.s1.1 .0, d.s1.1 .1)), (pt(d.s2.0 .0, d.s2.0 .1), pt(d.s2.1 .0, d.s2.1 .1)));
    if s1.0 == s1.1 || s2.0 == s2.1 {
        return Ok(());
    }
    if d.subj.0 == d.subj.1 && collinear_overlap(s1, s2) {
        return Ok(());
    }
    // in_out is not used by the orderings: here it says "write the zeros of segment 1 / 2 as negative zero"
    let nz = |s: ((f64, f64), (f64, f64)), on: bool| {
        let z = |v: f64| if on && v == 0.0 { -0.0 } else { v };
        ((z(s.0 .0), z(s.0 .1)), (z(s.1 .0), z(s.1 .1)))
    };
    let mut evs = mk(nz(d.s1, d.in_out.0), d.subj.0, 1);
    evs.extend(mk(nz(d.s2, d.in_out.1), d.subj.1, 2));
    obs.class("segment-pair-events");
    if (d.in_out.0 || d.in_out.1) && [d.s1.0 .0, d.s1.0 .1, d.s1.1 .0, d.s1.1 .1, d.s2.0 .0, d.s2.0 .1, d.s2.1 .0, d.s2.1 .1].iter().any(|v| *v == 0.0) {
        obs.class("negative-zero-coordinates");
    }
    if strictly_inside(s1, s2.0) || strictly_inside(s1, s2.1) || strictly_inside(s2, s1.0) || strictly_inside(s2, s1.1) {
        obs.class("T-contact-pair");
    }
    check_order_mode(&evs, "segment pair", obs, 1, !d.integer)?;
    // The same events after the first segment was divided the way divide_segment does it (two new events at a rounded
    // point of the segment, the old events re-linked): the orders must describe the segments as they are now, whatever
    // was compared before. Float pairs only (the point is generally not exactly on the segment).
    if !d.integer && evs.len() == 4 {
        let (l, r) = if evs[0].is_left() { (evs[0].clone(), evs[1].clone()) } else { (evs[1].clone(), evs[0].clone()) };
        let (pl, pr) = (l.point, r.point);
        let t = [0.25, 0.5, 0.75][(pl.x.to_bits() % 3) as usize];
        let m = pt(pl.x + t * (pr.x - pl.x), pl.y + t * (pr.y - pl.y));
        let inside = if pl.x != pr.x { pl.x < m.x && m.x < pr.x } else { pl.y < m.y && m.y < pr.y };
        let s2n = (evs[2].point, evs[3].point);
        let overlap = d.subj.0 == d.subj.1 && (collinear_overlap((pl, m), s2n) || collinear_overlap((m, pr), s2n));
        if inside && m.x.is_finite() && m.y.is_finite() && !overlap {
            let nr = SweepEvent::new_rc(1, m, false, Rc::downgrade(&l), d.subj.0, true);
            let nl = SweepEvent::new_rc(1, m, true, Rc::downgrade(&r), d.subj.0, true);
            r.set_other_event(&nl);
            l.set_other_event(&nr);
            evs.push(nr);
            evs.push(nl);
            obs.class("events-after-a-division");
            // event order only: next to a division point that is off the segment by rounding, compare_segments decides
            // by computed intersection points (the inexact-and-degenerate region, DESIGN.md §2)
            let nt = obs.nontrivial;
            check_order_ex(&evs, "segment pair after dividing the first segment", obs, 1, true, false)?;
            // the two new events always share a point: that alone does not make the case a non-trivial one
            obs.nontrivial = nt;
        }
    }
    Ok(())
}

/// the same for the f32 instantiation (coordinates must be f32 values)
pub fn check_segpair_order_f32(d: &crate::props::segpair::SegPair, obs: &mut Obs) -> Result<(), Failure> {
    let c32 = |p: (f64, f64)| Coord { x: p.0 as f32, y: p.1 as f32 };
    let mk = |s: ((f64, f64), (f64, f64)), subj: bool, id: u32| -> Vec<Rc<SweepEvent<f32>>> {
        let (a, b) = (c32(s.0), c32(s.1));
        if a == b {
            return vec![];
        }
        let e1 = SweepEvent::new_rc(id, a, false, Weak::new(), subj, true);
        let e2 = SweepEvent::new_rc(id, b, false, Rc::downgrade(&e1), subj, true);
        e1.set_other_event(&e2);
        if e1 < e2 {
            e2.set_left(true)
        } else {
            e1.set_left(true)
        }
        vec![e1, e2]
    };
    let w = |p: (f64, f64)| pt((p.0 as f32) as f64, (p.1 as f32) as f64);
    let (s1, s2) = ((w(d.s1.0), w(d.s1.1)), (w(d.s2.0), w(d.s2.1)));
    if s1.0 == s1.1 || s2.0 == s2.1 {
        return Ok(());
    }
    if d.subj.0 == d.subj.1 && collinear_overlap(s1, s2) {
        return Ok(());
    }
    let mut evs = mk(d.s1, d.subj.0, 1);
    evs.extend(mk(d.s2, d.subj.1, 2));
    obs.class("segment-pair-events-f32");
    check_order_mode(&evs, "segment pair (f32)", obs, 1, true)
}

/// nearly degenerate f32 pairs with mixed magnitudes: a long segment with endpoints of magnitude 1e5..1e6 and a
/// point near the origin on a 1/1024 grid that lies almost on it (coordinate differences are then inexact in f32)
pub fn near_collinear_strategy_f32() -> proptest::strategy::BoxedStrategy<crate::props::segpair::SegPair> {
    use crate::props::segpair::SegPair;
    use proptest::prelude::*;
    let r32 = |v: f64| (v as f32) as f64;
    let big = || prop_oneof![(-1.0e6f64..1.0e6), (-1.0e5f64..1.0e5), (-3000.0f64..3000.0)];
    let small = || (-4096i32..4096).prop_map(|i| i as f64 / 1024.0);
    ((big(), big()), (big(), big()), (small(), small()), 0.0f64..1.0, -3i32..=3, -3i32..=3, 0u8..3, any::<bool>(), any::<bool>(), (big(), big()))
        .prop_map(move |(a, b, o, t, u1, u2, kind, sa, sb, c)| {
            let nudge = |v: f64, u: i32| {
                let f = v as f32;
                let x = f32::from_bits((f.to_bits() as i32 + u) as u32);
                if x.is_finite() && (x - f).abs() <= f.abs() * 1e-5 + 1e-30 {
                    x as f64
                } else {
                    f as f64
                }
            };
            let a = (r32(a.0), r32(a.1));
            let b = (r32(b.0), r32(b.1));
            let c = (r32(c.0), r32(c.1));
            // a point (almost) on a-b, either anywhere on it or the grid point near the origin closest to it
            let q = if kind == 2 { (r32(o.0), r32(o.1)) } else { (nudge(a.0 + t * (b.0 - a.0), u1), nudge(a.1 + t * (b.1 - a.1), u2)) };
            let (s1, s2) = match kind {
                0 => ((a, b), (q, c)),
                1 => ((a, b), (a, q)),
                _ => ((a, b), (q, c)),
            };
            SegPair { s1, s2, subj: (sa, sb), in_out: (false, false), f32: true, integer: false }
        })
        .boxed()
}

/// float segment pairs in nearly degenerate position for the ordering predicates: a second segment that starts at
/// (or within a few ulps of) a point of the first one, or leaves the same endpoint in almost the same direction;
/// coordinates with full 53-bit mantissas, magnitudes up to 2^30
pub fn near_collinear_strategy() -> proptest::strategy::BoxedStrategy<crate::props::segpair::SegPair> {
    use crate::props::segpair::SegPair;
    use proptest::prelude::*;
    let coord = || prop_oneof![3 => -1000.0f64..1000.0, 1 => -1.0e9f64..1.0e9, 1 => (-(1i64 << 30)..(1i64 << 30)).prop_map(|i| i as f64)];
    let point = move || (coord(), coord());
    let nudge = |v: f64, u: i64| {
        let x = f64::from_bits((v.to_bits() as i64 + u) as u64);
        if x.is_finite() && (x - v).abs() <= v.abs() * 1e-10 + 1e-300 {
            x
        } else {
            v
        }
    };
    // exact T-contacts with integer coordinates far beyond 2^25 (sums exact, products rounded): a + j*d lies exactly on
    // a .. a + k*d, but a plain floating-point cross product does not see it
    let big = || (-(1i64 << 28)..(1i64 << 28), -(1i64 << 28)..(1i64 << 28));
    let bigt = (big(), (-(1i64 << 27)..(1i64 << 27), -(1i64 << 27)..(1i64 << 27)), 2i64..7, 1i64..7, big(), any::<bool>(), any::<bool>(), any::<bool>()).prop_map(|(a, d, k, j, c, end_on, sa, sb)| {
        let j = 1 + (j - 1) % (k - 1);
        let f = |p: (i64, i64)| (p.0 as f64, p.1 as f64);
        let (b, q) = ((a.0 + k * d.0, a.1 + k * d.1), (a.0 + j * d.0, a.1 + j * d.1));
        let s2 = if end_on { (f(c), f(q)) } else { (f(q), f(c)) };
        SegPair { s1: (f(a), f(b)), s2, subj: (sa, sb), in_out: (false, false), f32: false, integer: false }
    });
    let near = (point(), point(), point(), 0.0f64..1.0, -3i64..=3, -3i64..=3, 0u8..4, any::<bool>(), any::<bool>())
        .prop_map(move |(a, b, c, t, u1, u2, kind, sa, sb)| {
            // q: a point (almost) on segment a-b
            let q = (nudge(a.0 + t * (b.0 - a.0), u1), nudge(a.1 + t * (b.1 - a.1), u2));
            let (s1, s2) = match kind {
                // T-like: second segment starts (almost) on the first
                0 => ((a, b), (q, c)),
                // same start, almost the same direction
                1 => ((a, b), (a, q)),
                // same end, almost the same direction
                2 => ((a, b), (q, b)),
                // second segment ends (almost) on the first
                _ => ((a, b), (c, q)),
            };
            SegPair { s1, s2, subj: (sa, sb), in_out: (false, false), f32: false, integer: false }
        });
    // exact T-contact with full mantissas: the segment -v .. v passes through the origin, the contact point is
    // +-v * 2^-m (exactly on it), while the difference of contact point and endpoint is not representable
    let orig = ((-1000.0f64..1000.0, -1000.0f64..1000.0), 1i32..6, any::<bool>(), point(), any::<bool>(), any::<bool>(), any::<bool>()).prop_map(|(v, m, neg, c, end_on, sa, sb)| {
        let f = (2.0f64).powi(-m) * if neg { -1.0 } else { 1.0 };
        let q = (v.0 * f, v.1 * f);
        let s2 = if end_on { (c, q) } else { (q, c) };
        SegPair { s1: ((-v.0, -v.1), v), s2, subj: (sa, sb), in_out: (false, false), f32: false, integer: false }
    });
    prop_oneof![3 => near, 2 => bigt, 2 => orig].boxed()
}

fn done_flag(run: &StageRun, e: &Ev) -> bool {
    match e.get_other_event() {
        Some(o) => run.processed.iter().any(|x| Rc::ptr_eq(x, &o)),
        None => false,
    }
}
