use vh::driver;
use vh::runner::Tier;

fn usage() -> ! {
    eprintln!("usage: verif run <ID> quick|thorough | verif replay <file>");
    std::process::exit(2)
}

fn main() {
    vh::exec::install_panic_hook();
    let args: Vec<String> = std::env::args().collect();
    if args.len() < 2 {
        usage();
    }
    let code = match args[1].as_str() {
        "run" => {
            if args.len() < 4 {
                usage();
            }
            let tier = match args[3].as_str() {
                "quick" => Tier::Quick,
                "thorough" => Tier::Thorough,
                _ => usage(),
            };
            driver::run_generic(&args[2], tier)
        }
        "child" => vh::props::big::child_main(&args[2..]),
        "replay" => {
            if args.len() < 3 {
                usage();
            }
            driver::replay(&args[2])
        }
        _ => usage(),
    };
    std::process::exit(code);
}
