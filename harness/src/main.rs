use vh::driver;
use vh::runner::Tier;

fn usage() -> ! {
    eprintln!("usage: verif run <ID> quick|thorough | verif replay <file>");
    std::process::exit(2)
}

fn main() {
    vh::exec::install_panic_hook();
    let args: Vec<String> = std::env::args().collect();
    if args.len() < 2 {
        usage();
    }
    let code = match args[1].as_str() {
        "run" => {
            if args.len() < 4 {
                usage();
            }
            let tier = match args[3].as_str() {
                "quick" => Tier::Quick,
                "thorough" => Tier::Thorough,
                _ => usage(),
            };
            // wall-clock limits: inconclusive (exit 2) when hit, never a violation
            let (per_case, total) = match tier {
                Tier::Quick => (120, 3_600),
                Tier::Thorough => (600, 6 * 3_600),
            };
            vh::runner::spawn_watchdog(args[2].clone(), per_case, total);
            driver::run_generic(&args[2], tier)
        }
        "part" => {
            // the debug-assertion build's share of C03: verif part C03 <tier> <outfile>
            if args.len() < 5 || args[2] != "C03" {
                usage();
            }
            let tier = if args[3] == "thorough" { Tier::Thorough } else { Tier::Quick };
            vh::runner::spawn_watchdog("C03".to_string(), if tier == Tier::Quick { 120 } else { 600 }, if tier == Tier::Quick { 3_600 } else { 6 * 3_600 });
            driver::run_c03(tier, Some(&args[4]))
        }
        "hunt" => {
            // exploration aid (not a check): list distinct panic sites on the adversarial domain with a small example each
            use proptest::strategy::{Strategy, ValueTree};
            use proptest::test_runner::{Config, RngAlgorithm, TestRng, TestRunner};
            use vh::props::robust::*;
            let n: u64 = args.get(2).and_then(|s| s.parse().ok()).unwrap_or(100_000);
            let seed: u8 = args.get(3).and_then(|s| s.parse().ok()).unwrap_or(1);
            let mut runner = TestRunner::new_with_rng(Config::default(), TestRng::from_seed(RngAlgorithm::ChaCha, &[seed; 32]));
            let strat = adv_strategy();
            let mut seen: std::collections::BTreeMap<String, (u64, usize, String)> = Default::default();
            for _ in 0..n {
                let d = strat.new_tree(&mut runner).unwrap().current();
                if let Some((a, b)) = adv_operands(&d) {
                    let prec = adv_prec(&d);
                    for op in vh::exec::OPS {
                        let (p, sig) = match vh::exec::run_op(prec, vh::exec::Pairing::MM, &a, &b, op) {
                            Err(p) => {
                                let s = signature(&p);
                                (p, s)
                            }
                            Ok(_) => continue,
                        };
                        let key = format!("{:?} {}:{} {}", sig, p.file.rsplit('/').next().unwrap_or(""), p.line, p.message.chars().take(40).collect::<String>());
                        let size = vh::geom::mp_edges(&a).len() + vh::geom::mp_edges(&b).len();
                        let e = seen.entry(key).or_insert((0, usize::MAX, String::new()));
                        e.0 += 1;
                        if size < e.1 {
                            e.1 = size;
                            e.2 = format!("{} A: {} B: {}", vh::exec::op_name(op), vh::ser::mp_to_text(&a), vh::ser::mp_to_text(&b));
                        }
                    }
                }
            }
            for (k, v) in seen {
                println!("{:6} {}\n       e.g. {}", v.0, k, v.2);
            }
            0
        }
        "list-adv-failures" => driver::list_adv_failures(args.get(2).map(|s| s.as_str()).unwrap_or("C01")),
        "child" => vh::props::big::child_main(&args[2..]),
        "replay" => {
            if args.len() < 3 {
                usage();
            }
            driver::replay(&args[2])
        }
        _ => usage(),
    };
    std::process::exit(code);
}
