//! Calling the code under test: all four trait pairings, f64 / f32, panic capture, sweep event budget.
use crate::geom::*;
use geo_booleanop::boolean::verif_hooks;
use geo_booleanop::boolean::{BooleanOp, Operation};
use geo_types::{Coord, LineString, MultiPolygon, Polygon};
use std::cell::RefCell;
use std::panic::{catch_unwind, AssertUnwindSafe};
use std::sync::Once;

pub const OPS: [Operation; 4] = [Operation::Intersection, Operation::Union, Operation::Difference, Operation::Xor];

pub fn op_name(op: Operation) -> &'static str {
    match op {
        Operation::Intersection => "intersection",
        Operation::Union => "union",
        Operation::Difference => "difference",
        Operation::Xor => "xor",
    }
}

pub fn op_from_name(s: &str) -> Option<Operation> {
    OPS.iter().cloned().find(|&o| op_name(o) == s)
}

pub fn opf(op: Operation, a: bool, b: bool) -> bool {
    match op {
        Operation::Intersection => a && b,
        Operation::Union => a || b,
        Operation::Difference => a && !b,
        Operation::Xor => a ^ b,
    }
}

#[derive(Clone, Copy, PartialEq, Eq, Debug)]
pub enum Pairing {
    MM,
    PM,
    MP,
    PP,
}

pub const PAIRINGS: [Pairing; 4] = [Pairing::MM, Pairing::PM, Pairing::MP, Pairing::PP];

impl Pairing {
    pub fn name(self) -> &'static str {
        match self {
            Pairing::MM => "multi*multi",
            Pairing::PM => "poly*multi",
            Pairing::MP => "multi*poly",
            Pairing::PP => "poly*poly",
        }
    }
    pub fn allowed(self, a: &MP, b: &MP) -> bool {
        match self {
            Pairing::MM => true,
            Pairing::PM => a.0.len() == 1,
            Pairing::MP => b.0.len() == 1,
            Pairing::PP => a.0.len() == 1 && b.0.len() == 1,
        }
    }
    /// choose among the pairings the part counts allow, preferring the non-MM ones (they are rarer)
    pub fn choose(a: &MP, b: &MP, bits: u64) -> Pairing {
        let allowed: Vec<Pairing> = PAIRINGS.iter().cloned().filter(|p| p.allowed(a, b)).collect();
        allowed[(bits % allowed.len() as u64) as usize]
    }
}

#[derive(Clone, Copy, PartialEq, Eq, Debug)]
pub enum Prec {
    F64,
    F32,
}

#[derive(Clone, Debug)]
pub struct PanicInfo {
    pub file: String,
    pub line: u32,
    pub message: String,
    pub budget_exceeded: bool,
    pub events: u64,
    pub last_points: Vec<(f64, f64)>,
}

thread_local! {
    static LAST_PANIC: RefCell<Option<(String, u32, String)>> = RefCell::new(None);
    static GUARD_DEPTH: std::cell::Cell<u32> = std::cell::Cell::new(0);
}

static HOOK: Once = Once::new();

/// install a silent panic hook that records location and message per thread
pub fn install_panic_hook() {
    HOOK.call_once(|| {
        std::panic::set_hook(Box::new(|info| {
            let (file, line) = info.location().map(|l| (l.file().to_string(), l.line())).unwrap_or_default();
            let msg = if let Some(s) = info.payload().downcast_ref::<String>() {
                s.clone()
            } else if let Some(s) = info.payload().downcast_ref::<&str>() {
                s.to_string()
            } else {
                "?".to_string()
            };
            if GUARD_DEPTH.with(|g| g.get()) == 0 {
                // a panic of the harness itself: never silent
                eprintln!("harness panic at {}:{}: {}", file, line, msg);
            }
            LAST_PANIC.with(|l| *l.borrow_mut() = Some((file, line, msg)));
        }));
    });
}

/// the bound on processed sweep events used by C03: B(n) = 4n^2 + 8n + 16
pub fn event_bound(n_edges: u64) -> u64 {
    4 * n_edges * n_edges + 8 * n_edges + 16
}

/// run `f` with the event budget set; capture panics
pub fn guarded<T>(budget: u64, f: impl FnOnce() -> T) -> Result<T, PanicInfo> {
    install_panic_hook();
    verif_hooks::reset(budget);
    LAST_PANIC.with(|l| *l.borrow_mut() = None);
    GUARD_DEPTH.with(|g| g.set(g.get() + 1));
    let r = catch_unwind(AssertUnwindSafe(f));
    GUARD_DEPTH.with(|g| g.set(g.get() - 1));
    match r {
        Ok(v) => Ok(v),
        Err(_) => {
            let (file, line, message) = LAST_PANIC.with(|l| l.borrow_mut().take()).unwrap_or_default();
            let budget_exceeded = message.contains("VERIF_EVENT_BUDGET_EXCEEDED");
            Err(PanicInfo { file, line, message, budget_exceeded, events: verif_hooks::count(), last_points: verif_hooks::last_points() })
        }
    }
}

pub fn events_processed() -> u64 {
    verif_hooks::count()
}

pub fn to32(mp: &MP) -> MultiPolygon<f32> {
    MultiPolygon(
        mp.0.iter()
            .map(|p| {
                let g = |ls: &LineString<f64>| LineString(ls.0.iter().map(|c| Coord { x: c.x as f32, y: c.y as f32 }).collect::<Vec<_>>());
                Polygon::new(g(p.exterior()), p.interiors().iter().map(g).collect())
            })
            .collect(),
    )
}

pub fn to64(mp: &MultiPolygon<f32>) -> MP {
    MultiPolygon(
        mp.0.iter()
            .map(|p| {
                let g = |ls: &LineString<f32>| LineString(ls.0.iter().map(|c| Coord { x: c.x as f64, y: c.y as f64 }).collect::<Vec<_>>());
                Polygon::new(g(p.exterior()), p.interiors().iter().map(g).collect())
            })
            .collect(),
    )
}

/// every coordinate survives the round trip through f32
pub fn f32_representable(mp: &MP) -> bool {
    rings_of(mp).iter().all(|r| r.0.iter().all(|c| (c.x as f32) as f64 == c.x && (c.y as f32) as f64 == c.y))
}

fn call<F: geo_booleanop::boolean::Float>(a: &MultiPolygon<F>, b: &MultiPolygon<F>, op: Operation, pairing: Pairing) -> MultiPolygon<F> {
    match pairing {
        Pairing::MM => a.boolean(b, op),
        Pairing::PM => a.0[0].boolean(b, op),
        Pairing::MP => a.boolean(&b.0[0], op),
        Pairing::PP => a.0[0].boolean(&b.0[0], op),
    }
}

pub fn n_edges(a: &MP, b: &MP) -> u64 {
    (mp_edges(a).len() + mp_edges(b).len()) as u64
}

/// One guarded call of the code under test. f32: operands are narrowed (callers make sure they are representable
/// when that matters) and the result widened exactly.
pub fn run_op(prec: Prec, pairing: Pairing, a: &MP, b: &MP, op: Operation) -> Result<MP, PanicInfo> {
    let budget = event_bound(n_edges(a, b));
    match prec {
        Prec::F64 => guarded(budget, || call(a, b, op, pairing)),
        Prec::F32 => {
            let (a32, b32) = (to32(a), to32(b));
            guarded(budget, || to64(&call(&a32, &b32, op, pairing)))
        }
    }
}

pub fn run_mm(a: &MP, b: &MP, op: Operation) -> Result<MP, PanicInfo> {
    run_op(Prec::F64, Pairing::MM, a, b, op)
}
