//! Decoding fuzzer bytes into the same structured descriptors the proptest strategies generate, and the
//! in-target oracles (the same checks as the registered properties).
use crate::gen::*;
use crate::props::segpair::SegPair;
use crate::props::splay::{Cmp, Finale, History, Op};
use crate::runner::{Failure, Obs};
use arbitrary::Unstructured;

fn key(u: &mut Unstructured) -> arbitrary::Result<i32> {
    Ok(if u.ratio(1u8, 10u8)? { u.arbitrary::<i32>()? } else { u.int_in_range(-12..=12)? })
}

pub fn decode_history(data: &[u8]) -> Option<History> {
    let mut u = Unstructured::new(data);
    let r: arbitrary::Result<History> = (|| {
        let set = u.ratio(1u8, 4u8)?;
        let cmp = match u.int_in_range(0..=4u8)? {
            0 => Cmp::Reversed,
            1 => Cmp::Mod7,
            _ => Cmp::Natural,
        };
        let finale = match u.int_in_range(0..=4u8)? {
            0 => Finale::Drop,
            1 => Finale::IterForward,
            2 => Finale::IterBackward,
            3 => Finale::IterPattern(u.arbitrary()?),
            _ => Finale::IterPartial(u.arbitrary()?, u.arbitrary()?),
        };
        let mut ops = Vec::new();
        while !u.is_empty() && ops.len() < 600 {
            let op = match u.int_in_range(0..=18u8)? {
                0..=3 => Op::Insert(key(&mut u)?, u.arbitrary()?),
                4..=6 => Op::Remove(key(&mut u)?),
                7 => Op::Get(key(&mut u)?),
                8 => Op::GetMutWrite(key(&mut u)?, u.arbitrary()?),
                9 => Op::FindKey(key(&mut u)?),
                10 => Op::Contains(key(&mut u)?),
                11 => Op::Next(key(&mut u)?),
                12 => Op::Prev(key(&mut u)?),
                13 => match u.int_in_range(0..=3u8)? {
                    0 => Op::Min,
                    1 => Op::Max,
                    2 => Op::Len,
                    _ => Op::Clear,
                },
                14 => {
                    let n = u.int_in_range(0..=5usize)?;
                    let mut v = Vec::new();
                    for _ in 0..n {
                        v.push((key(&mut u)?, u.arbitrary()?));
                    }
                    Op::Extend(v)
                }
                15 => Op::Index(key(&mut u)?),
                16 => Op::IndexMutWrite(key(&mut u)?, u.arbitrary()?),
                _ => {
                    let n = u.int_in_range(1..=7usize)?;
                    let kind = u.int_in_range(0..=5u8)?;
                    let k = key(&mut u)?;
                    let mut v = Vec::new();
                    for _ in 0..n {
                        v.push((u.int_in_range(0..=5u8)?, key(&mut u)?));
                    }
                    Op::HoldRef(kind, k, v)
                }
            };
            ops.push(op);
        }
        Ok(History { set, cmp, ops, finale })
    })();
    r.ok().filter(|h| !h.ops.is_empty())
}

pub fn decode_segpair(data: &[u8]) -> Option<SegPair> {
    let mut u = Unstructured::new(data);
    let r: arbitrary::Result<SegPair> = (|| {
        let mode = u.int_in_range(0..=9u8)?;
        let flags: u8 = u.arbitrary()?;
        let subj = (flags & 1 != 0, flags & 2 != 0);
        let in_out = (flags & 4 != 0, flags & 8 != 0);
        if mode < 6 {
            let range: i64 = match mode {
                0 | 1 | 2 => 6,
                3 | 4 => 1000,
                _ => (1 << 25) - 1,
            };
            let mut c = [0f64; 8];
            for v in c.iter_mut() {
                *v = u.int_in_range(-range..=range)? as f64;
            }
            Ok(SegPair { s1: ((c[0], c[1]), (c[2], c[3])), s2: ((c[4], c[5]), (c[6], c[7])), subj, in_out, f32: false, integer: true })
        } else {
            let single = mode >= 8;
            let mut c = [0f64; 8];
            for v in c.iter_mut() {
                let x = if single { f32::from_bits(u.arbitrary()?) as f64 } else { f64::from_bits(u.arbitrary()?) };
                // finite and moderate, so that no intermediate overflows
                let lim = if single { 1e15 } else { 1e140 };
                *v = if x.is_finite() && x.abs() < lim && (x == 0.0 || x.abs() > 1.0 / lim) { x } else { (u.int_in_range(-50..=50i32)?) as f64 };
            }
            Ok(SegPair { s1: ((c[0], c[1]), (c[2], c[3])), s2: ((c[4], c[5]), (c[6], c[7])), subj, in_out, f32: single, integer: false })
        }
    })();
    r.ok()
}

/// small exact-family operand pairs / triples (rect or oct) with auxiliary bits
pub fn decode_case(data: &[u8]) -> Option<CaseDesc> {
    let mut u = Unstructured::new(data);
    let r: arbitrary::Result<CaseDesc> = (|| {
        let kind = u.int_in_range(0..=3u8)?;
        let bits: u64 = u.arbitrary()?;
        let w = u.int_in_range(1..=4usize)?;
        let h = u.int_in_range(1..=4usize)?;
        let n = w * h;
        let aff = if kind >= 2 { Some(Aff { sym: u.int_in_range(0..=7u8)?, tx: u.int_in_range(-1_000_000..=1_000_000)?, ty: u.int_in_range(-1_000_000..=1_000_000)?, k: u.int_in_range(-20..=20)? }) } else { None };
        let merge = [u.arbitrary()?, u.arbitrary()?, u.arbitrary()?];
        let shape = if kind % 2 == 0 {
            let mut cells: [Vec<bool>; 3] = [vec![], vec![], vec![]];
            for c in cells.iter_mut() {
                for _ in 0..n {
                    c.push(u.arbitrary()?);
                }
            }
            let coords = if u.arbitrary()? {
                let mut xs = Vec::new();
                let mut ys = Vec::new();
                for _ in 0..w {
                    xs.push(u.int_in_range(1..=199u16)?);
                }
                for _ in 0..h {
                    ys.push(u.int_in_range(1..=199u16)?);
                }
                Some((u.int_in_range(-1000..=1000)?, u.int_in_range(-1000..=1000)?, xs, ys))
            } else {
                None
            };
            Shape::Rect(RectDesc { w, h, cells, coords, merge })
        } else {
            let (w, h, n) = (w.min(3), h.min(3), w.min(3) * h.min(3));
            let mut cells: [Vec<(u8, u8)>; 3] = [vec![], vec![], vec![]];
            for c in cells.iter_mut() {
                for _ in 0..n {
                    let b: u8 = u.arbitrary()?;
                    c.push((b & 3, b >> 4));
                }
            }
            let o: u8 = u.arbitrary()?;
            Shape::Oct(OctDesc { w, h, cells, off: [(o & 1, o >> 1 & 1), (o >> 2 & 1, o >> 3 & 1)], merge })
        };
        Ok(CaseDesc { shape, aff, bits })
    })();
    r.ok()
}

/// in-target oracle for fz_bool: C01, C02, C04, C05 and one law by the bits
pub fn bool_oracle(desc: &CaseDesc) -> Result<(), (String, Failure)> {
    use crate::exec::Prec;
    use crate::props::{laws, result};
    let case = match desc.expand(false) {
        Ok(c) => c,
        Err(_) => return Ok(()),
    };
    let mut o = Obs::default();
    result::c01(&case, &mut o, Prec::F64).map_err(|f| ("C01".to_string(), f))?;
    result::c02(&case, &mut o, Prec::F64).map_err(|f| ("C02".to_string(), f))?;
    result::c04(&case, &mut o, Prec::F64).map_err(|f| ("C04".to_string(), f))?;
    result::c05(&case, &mut o, Prec::F64).map_err(|f| ("C05".to_string(), f))?;
    match case.bits >> 61 {
        0 | 1 => laws::c06(&case, &mut o, Prec::F64).map_err(|f| ("C06".to_string(), f))?,
        2 | 3 => laws::c07(&case, &mut o, Prec::F64).map_err(|f| ("C07".to_string(), f))?,
        4 | 5 => laws::c08(&case, &mut o, Prec::F64).map_err(|f| ("C08".to_string(), f))?,
        _ => laws::c09(&case, &mut o, Prec::F64).map_err(|f| ("C09".to_string(), f))?,
    }
    Ok(())
}

/// in-target oracle for fz_stage: C13, C14, C15
pub fn stage_oracle(desc: &CaseDesc) -> Result<(), (String, Failure)> {
    use crate::props::stage;
    let case = match desc.expand(false) {
        Ok(c) => c,
        Err(_) => return Ok(()),
    };
    let mut o = Obs::default();
    stage::c13(&case, &mut o).map_err(|f| ("C13".to_string(), f))?;
    stage::c14(&case, &mut o).map_err(|f| ("C14".to_string(), f))?;
    stage::c15(&case, &mut o).map_err(|f| ("C15".to_string(), f))?;
    Ok(())
}
