//! Decoding fuzzer bytes into the same structured descriptors the proptest strategies generate, and the
//! in-target oracles (the same checks as the registered properties).
use crate::gen::*;
use crate::props::segpair::SegPair;
use crate::props::splay::{Cmp, Finale, History, Op};
use crate::runner::{Failure, Obs};
use arbitrary::Unstructured;

fn key(u: &mut Unstructured) -> arbitrary::Result<i32> {
    Ok(if u.ratio(1u8, 10u8)? { u.arbitrary::<i32>()? } else { u.int_in_range(-12..=12)? })
}

pub fn decode_history(data: &[u8]) -> Option<History> {
    let mut u = Unstructured::new(data);
    let r: arbitrary::Result<History> = (|| {
        let set = u.ratio(1u8, 4u8)?;
        let cmp = match u.int_in_range(0..=4u8)? {
            0 => Cmp::Reversed,
            1 => Cmp::Mod7,
            _ => Cmp::Natural,
        };
        let finale = match u.int_in_range(0..=4u8)? {
            0 => Finale::Drop,
            1 => Finale::IterForward,
            2 => Finale::IterBackward,
            3 => Finale::IterPattern(u.arbitrary()?),
            _ => Finale::IterPartial(u.arbitrary()?, u.arbitrary()?),
        };
        let mut ops = Vec::new();
        while !u.is_empty() && ops.len() < 600 {
            let op = match u.int_in_range(0..=18u8)? {
                0..=3 => Op::Insert(key(&mut u)?, u.arbitrary()?),
                4..=6 => Op::Remove(key(&mut u)?),
                7 => Op::Get(key(&mut u)?),
                8 => Op::GetMutWrite(key(&mut u)?, u.arbitrary()?),
                9 => Op::FindKey(key(&mut u)?),
                10 => Op::Contains(key(&mut u)?),
                11 => Op::Next(key(&mut u)?),
                12 => Op::Prev(key(&mut u)?),
                13 => match u.int_in_range(0..=3u8)? {
                    0 => Op::Min,
                    1 => Op::Max,
                    2 => Op::Len,
                    _ => Op::Clear,
                },
                14 => {
                    let n = u.int_in_range(0..=5usize)?;
                    let mut v = Vec::new();
                    for _ in 0..n {
                        v.push((key(&mut u)?, u.arbitrary()?));
                    }
                    Op::Extend(v)
                }
                15 => Op::Index(key(&mut u)?),
                16 => Op::IndexMutWrite(key(&mut u)?, u.arbitrary()?),
                _ => {
                    let n = u.int_in_range(1..=7usize)?;
                    let kind = u.int_in_range(0..=5u8)?;
                    let k = key(&mut u)?;
                    let mut v = Vec::new();
                    for _ in 0..n {
                        v.push((u.int_in_range(0..=5u8)?, key(&mut u)?));
                    }
                    Op::HoldRef(kind, k, v)
                }
            };
            ops.push(op);
        }
        Ok(History { set, cmp, ops, finale })
    })();
    r.ok().filter(|h| !h.ops.is_empty())
}

pub fn decode_segpair(data: &[u8]) -> Option<SegPair> {
    let mut u = Unstructured::new(data);
    let r: arbitrary::Result<SegPair> = (|| {
        let mode = u.int_in_range(0..=9u8)?;
        let flags: u8 = u.arbitrary()?;
        let subj = (flags & 1 != 0, flags & 2 != 0);
        let in_out = (flags & 4 != 0, flags & 8 != 0);
        if mode < 6 {
            let range: i64 = match mode {
                0 | 1 | 2 => 6,
                3 | 4 => 1000,
                _ => (1 << 25) - 1,
            };
            let mut c = [0f64; 8];
            for v in c.iter_mut() {
                *v = u.int_in_range(-range..=range)? as f64;
            }
            Ok(SegPair { s1: ((c[0], c[1]), (c[2], c[3])), s2: ((c[4], c[5]), (c[6], c[7])), subj, in_out, f32: false, integer: true })
        } else {
            let single = mode >= 8;
            let mut c = [0f64; 8];
            for v in c.iter_mut() {
                let x = if single { f32::from_bits(u.arbitrary()?) as f64 } else { f64::from_bits(u.arbitrary()?) };
                // finite and moderate, so that no intermediate overflows
                let lim = if single { 1e15 } else { 1e140 };
                *v = if x.is_finite() && x.abs() < lim && (x == 0.0 || x.abs() > 1.0 / lim) { x } else { (u.int_in_range(-50..=50i32)?) as f64 };
            }
            Ok(SegPair { s1: ((c[0], c[1]), (c[2], c[3])), s2: ((c[4], c[5]), (c[6], c[7])), subj, in_out, f32: single, integer: false })
        }
    })();
    r.ok()
}

/// small exact-family operand pairs / triples (rect or oct) with auxiliary bits
pub fn decode_case(data: &[u8]) -> Option<CaseDesc> {
    let mut u = Unstructured::new(data);
    let r: arbitrary::Result<CaseDesc> = (|| {
        let kind = u.int_in_range(0..=3u8)?;
        let bits: u64 = u.arbitrary()?;
        let w = u.int_in_range(1..=4usize)?;
        let h = u.int_in_range(1..=4usize)?;
        let n = w * h;
        let aff = if kind >= 2 { Some(Aff { sym: u.int_in_range(0..=7u8)?, tx: u.int_in_range(-1_000_000..=1_000_000)?, ty: u.int_in_range(-1_000_000..=1_000_000)?, k: u.int_in_range(-20..=20)?, kx: 0 }) } else { None };
        let merge = [u.arbitrary()?, u.arbitrary()?, u.arbitrary()?];
        let shape = if kind % 2 == 0 {
            let mut cells: [Vec<bool>; 3] = [vec![], vec![], vec![]];
            for c in cells.iter_mut() {
                for _ in 0..n {
                    c.push(u.arbitrary()?);
                }
            }
            let coords = if u.arbitrary()? {
                let mut xs = Vec::new();
                let mut ys = Vec::new();
                for _ in 0..w {
                    xs.push(u.int_in_range(1..=199u16)?);
                }
                for _ in 0..h {
                    ys.push(u.int_in_range(1..=199u16)?);
                }
                Some((u.int_in_range(-1000..=1000)?, u.int_in_range(-1000..=1000)?, xs, ys))
            } else {
                None
            };
            Shape::Rect(RectDesc { w, h, cells, coords, merge })
        } else {
            let (w, h, n) = (w.min(3), h.min(3), w.min(3) * h.min(3));
            let mut cells: [Vec<(u8, u8)>; 3] = [vec![], vec![], vec![]];
            for c in cells.iter_mut() {
                for _ in 0..n {
                    let b: u8 = u.arbitrary()?;
                    c.push((b & 3, b >> 4));
                }
            }
            let o: u8 = u.arbitrary()?;
            Shape::Oct(OctDesc { w, h, cells, off: [(o & 1, o >> 1 & 1), (o >> 2 & 1, o >> 3 & 1)], merge })
        };
        Ok(CaseDesc { shape, aff, bits })
    })();
    r.ok()
}

/// which property's oracle the fuzz targets apply (env VERIF_FUZZ_PROP; default: all that the target serves)
pub fn selected_property() -> Option<String> {
    use std::sync::OnceLock;
    static SEL: OnceLock<Option<String>> = OnceLock::new();
    SEL.get_or_init(|| std::env::var("VERIF_FUZZ_PROP").ok().filter(|s| !s.is_empty())).clone()
}

fn want(sel: &Option<String>, id: &str) -> bool {
    sel.as_deref().map(|s| s == id).unwrap_or(true)
}

/// in-target oracle for fz_bool: C01, C02, C04, C05 and C06-C09 (all, or the one selected)
pub fn bool_oracle_sel(desc: &CaseDesc, sel: &Option<String>) -> Result<(), (String, Failure)> {
    use crate::exec::Prec;
    use crate::props::{laws, result};
    let case = match desc.expand(false) {
        Ok(c) => c,
        Err(_) => return Ok(()),
    };
    let mut o = Obs::default();
    if want(sel, "C01") {
        result::c01(&case, &mut o, Prec::F64).map_err(|f| ("C01".to_string(), f))?;
    }
    if want(sel, "C02") {
        result::c02(&case, &mut o, Prec::F64).map_err(|f| ("C02".to_string(), f))?;
    }
    if want(sel, "C04") {
        result::c04(&case, &mut o, Prec::F64).map_err(|f| ("C04".to_string(), f))?;
    }
    if want(sel, "C05") {
        result::c05(&case, &mut o, Prec::F64).map_err(|f| ("C05".to_string(), f))?;
    }
    let one_law = sel.is_none();
    let pick = case.bits >> 61;
    if (one_law && pick < 2) || sel.as_deref() == Some("C06") {
        laws::c06(&case, &mut o, Prec::F64).map_err(|f| ("C06".to_string(), f))?;
    }
    if (one_law && (2..4).contains(&pick)) || sel.as_deref() == Some("C07") {
        laws::c07(&case, &mut o, Prec::F64).map_err(|f| ("C07".to_string(), f))?;
    }
    if (one_law && (4..6).contains(&pick)) || sel.as_deref() == Some("C08") {
        laws::c08(&case, &mut o, Prec::F64).map_err(|f| ("C08".to_string(), f))?;
    }
    if (one_law && pick >= 6) || sel.as_deref() == Some("C09") {
        laws::c09(&case, &mut o, Prec::F64).map_err(|f| ("C09".to_string(), f))?;
    }
    Ok(())
}

pub fn bool_oracle(desc: &CaseDesc) -> Result<(), (String, Failure)> {
    bool_oracle_sel(desc, &selected_property())
}

/// in-target oracle for fz_stage: C13, C14, C15 (all, or the one selected)
pub fn stage_oracle_sel(desc: &CaseDesc, sel: &Option<String>) -> Result<(), (String, Failure)> {
    use crate::props::stage;
    let case = match desc.expand(false) {
        Ok(c) => c,
        Err(_) => return Ok(()),
    };
    let mut o = Obs::default();
    if want(sel, "C13") {
        stage::c13(&case, &mut o).map_err(|f| ("C13".to_string(), f))?;
    }
    if want(sel, "C14") {
        stage::c14(&case, &mut o).map_err(|f| ("C14".to_string(), f))?;
    }
    if want(sel, "C15") {
        stage::c15(&case, &mut o).map_err(|f| ("C15".to_string(), f))?;
    }
    Ok(())
}

pub fn stage_oracle(desc: &CaseDesc) -> Result<(), (String, Failure)> {
    stage_oracle_sel(desc, &selected_property())
}

pub fn target_for(id: &str) -> Option<&'static str> {
    match id {
        "C01" | "C02" | "C04" | "C05" | "C06" | "C07" | "C08" | "C09" => Some("fz_bool"),
        "C13" | "C14" | "C15" => Some("fz_stage"),
        "C16" => Some("fz_segpair"),
        "C17" => Some("fz_splay"),
        _ => None,
    }
}

/// evaluate raw fuzzer bytes with the oracle of one property, outside libFuzzer (replay of artifacts)
pub fn replay_bytes(target: &str, id: &str, data: &[u8]) -> Result<String, (String, Failure)> {
    let sel = Some(id.to_string());
    match target {
        "fz_bool" => match decode_case(data) {
            Some(d) => bool_oracle_sel(&d, &sel).map(|_| format!("{:?}", d)),
            None => Ok("(bytes do not decode to a case)".to_string()),
        },
        "fz_stage" => match decode_case(data) {
            Some(d) => stage_oracle_sel(&d, &sel).map(|_| format!("{:?}", d)),
            None => Ok("(bytes do not decode to a case)".to_string()),
        },
        "fz_segpair" => match decode_segpair(data) {
            Some(d) => crate::props::segpair::eval_pair(&d, false).result.map(|_| format!("{:?}", d)).map_err(|f| ("C16".to_string(), f)),
            None => Ok("(bytes do not decode to a segment pair)".to_string()),
        },
        "fz_splay" => match decode_history(data) {
            Some(h) => crate::props::splay::eval_history(&h, false).result.map(|_| crate::props::splay::history_to_text(&h)).map_err(|f| ("C17".to_string(), f)),
            None => Ok("(bytes do not decode to a history)".to_string()),
        },
        _ => Ok("(unknown target)".to_string()),
    }
}
