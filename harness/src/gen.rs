//! Input domains: descriptors (what proptest generates and shrinks, what fuzz bytes decode to), their
//! expansion into operands, and the exact validity self-check of every generated operand.
use crate::geom::*;
use geo_types::{LineString, MultiPolygon, Polygon};
use std::collections::{BTreeMap, BTreeSet};

pub type IV = (i64, i64);

// ---------------------------------------------------------------------------------------------
// triangle-soup tracer: filled CCW triangles of a conforming subdivision -> valid multipolygon

/// Boundary tracing: directed boundary edges with the interior on the left, chained, split at every repeated
/// vertex so that rings are simple; orientation decides shell/hole; each hole goes to the smallest shell
/// containing the triangle on its inner side. `map` gives the final coordinates of a lattice vertex.
pub fn soup_to_mp(tris: &[[IV; 3]], merge_collinear: bool, map: &dyn Fn(IV) -> P) -> MP {
    let mut dir: BTreeSet<(IV, IV)> = BTreeSet::new();
    let mut owner: BTreeMap<(IV, IV), usize> = BTreeMap::new();
    for (ti, t) in tris.iter().enumerate() {
        let area = (t[1].0 - t[0].0) * (t[2].1 - t[0].1) - (t[1].1 - t[0].1) * (t[2].0 - t[0].0);
        assert!(area > 0, "triangle must be CCW");
        for k in 0..3 {
            let a = t[k];
            let b = t[(k + 1) % 3];
            if dir.contains(&(b, a)) {
                dir.remove(&(b, a));
            } else {
                dir.insert((a, b));
                owner.insert((a, b), ti);
            }
        }
    }
    let mut out: BTreeMap<IV, Vec<IV>> = BTreeMap::new();
    for &(a, b) in &dir {
        out.entry(a).or_default().push(b);
    }
    let mut rings: Vec<Vec<IV>> = Vec::new();
    let keys: Vec<IV> = out.keys().cloned().collect();
    // At a vertex where several boundary edges leave, continue with the one that turns left most (the interior is on
    // the left of every directed boundary edge): the walk then hugs one interior corner after the other, so two rings
    // may touch at such a vertex but never cross there.
    let turn = |from: IV, at: IV, to: IV| -> f64 {
        let (ux, uy) = ((at.0 - from.0) as f64, (at.1 - from.1) as f64);
        let (vx, vy) = ((to.0 - at.0) as f64, (to.1 - at.1) as f64);
        (ux * vy - uy * vx).atan2(ux * vx + uy * vy)
    };
    for k in keys {
        while let Some(first) = out.get_mut(&k).and_then(|v| v.pop()) {
            let mut ring = vec![k];
            let mut prev = k;
            let mut cur = first;
            while cur != k {
                ring.push(cur);
                let cands = out.get_mut(&cur).unwrap();
                let mut best = 0;
                for i in 1..cands.len() {
                    if turn(prev, cur, cands[i]) > turn(prev, cur, cands[best]) {
                        best = i;
                    }
                }
                let next = cands.swap_remove(best);
                prev = cur;
                cur = next;
            }
            let mut stack: Vec<IV> = Vec::new();
            for v in ring {
                if let Some(pos) = stack.iter().position(|x| *x == v) {
                    let sub: Vec<IV> = stack.drain(pos..).collect();
                    rings.push(sub);
                }
                stack.push(v);
            }
            if !stack.is_empty() {
                rings.push(stack);
            }
        }
    }
    let area2 = |r: &Vec<IV>| -> i64 {
        let mut a = 0i64;
        for t in 0..r.len() {
            let p = r[t];
            let q = r[(t + 1) % r.len()];
            a += p.0 * q.1 - q.0 * p.1;
        }
        a
    };
    let mut ext: Vec<(Vec<IV>, i64)> = Vec::new();
    let mut holes: Vec<Vec<IV>> = Vec::new();
    for r in rings {
        let a = area2(&r);
        assert!(a != 0);
        if a > 0 {
            ext.push((r, a));
        } else {
            holes.push(r);
        }
    }
    let to_ls = |r: &Vec<IV>| -> LineString<f64> {
        let mut pts: Vec<IV> = r.clone();
        if merge_collinear {
            let n = pts.len();
            let mut keep = Vec::new();
            for t in 0..n {
                let p = pts[(t + n - 1) % n];
                let c = pts[t];
                let q = pts[(t + 1) % n];
                let col = (c.0 - p.0) * (q.1 - c.1) - (c.1 - p.1) * (q.0 - c.0) == 0;
                if !col {
                    keep.push(c);
                }
            }
            pts = keep;
        }
        let mut v: Vec<P> = pts.iter().map(|&p| map(p)).collect();
        v.push(v[0]);
        LineString(v)
    };
    let mut polys: Vec<(LineString<f64>, Vec<LineString<f64>>)> = ext.iter().map(|(r, _)| (to_ls(r), vec![])).collect();
    for h in holes {
        let ti = owner[&(h[0], h[1])];
        let t = tris[ti];
        let c = pt((t[0].0 + t[1].0 + t[2].0) as f64 / 3.0, (t[0].1 + t[1].1 + t[2].1) as f64 / 3.0);
        let mut best: Option<usize> = None;
        for (k, (r, area)) in ext.iter().enumerate() {
            let ls = LineString(r.iter().chain(std::iter::once(&r[0])).map(|&(i, j)| pt(i as f64, j as f64)).collect());
            if evenodd(&ring_edges(&ls), c) == Side::In && best.map(|b| ext[b].1 > *area).unwrap_or(true) {
                best = Some(k);
            }
        }
        polys[best.expect("hole without parent")].1.push(to_ls(&h));
    }
    MultiPolygon(polys.into_iter().map(|(e, h)| Polygon::new(e, h)).collect())
}

/// cell (i,j) of size 2 on the even lattice. mode 0: whole square (two triangles sharing the fill bit 0);
/// 1: split by "/" ; 2: split by "\" ; 3: X (4 triangles around the odd centre). Returns the triangles whose
/// fill bit is set.
pub fn cell_tris(i: i64, j: i64, mode: u8, fill: u8) -> Vec<[IV; 3]> {
    let (x0, y0, x1, y1) = (2 * i, 2 * j, 2 * i + 2, 2 * j + 2);
    let c = (x0 + 1, y0 + 1);
    let (p00, p10, p11, p01) = ((x0, y0), (x1, y0), (x1, y1), (x0, y1));
    let all: Vec<[IV; 3]> = match mode & 3 {
        0 => {
            return if fill & 1 != 0 { vec![[p00, p10, p11], [p00, p11, p01]] } else { vec![] };
        }
        1 => vec![[p00, p10, p11], [p00, p11, p01]],
        2 => vec![[p00, p10, p01], [p10, p11, p01]],
        _ => vec![[p00, p10, c], [p10, p11, c], [p11, p01, c], [p01, p00, c]],
    };
    all.into_iter().enumerate().filter(|(k, _)| fill >> k & 1 != 0).map(|(_, t)| t).collect()
}

// ---------------------------------------------------------------------------------------------
// descriptors

#[derive(Clone, Debug, PartialEq)]
pub struct RectDesc {
    pub w: usize,
    pub h: usize,
    /// cell bitmaps of A, B, C (row-major, w*h each)
    pub cells: [Vec<bool>; 3],
    /// None: unit coordinates 0..w, 0..h; Some: origin and strictly positive steps
    pub coords: Option<(i32, i32, Vec<u16>, Vec<u16>)>,
    /// merge collinear vertices of A, B, C
    pub merge: [bool; 3],
}

#[derive(Clone, Debug, PartialEq)]
pub struct OctDesc {
    pub w: usize,
    pub h: usize,
    /// per operand: (mode, fill bits) per cell
    pub cells: [Vec<(u8, u8)>; 3],
    /// lattice offsets of B and C relative to A (each 0 or 1)
    pub off: [(u8, u8); 2],
    pub merge: [bool; 3],
}

#[derive(Clone, Debug, PartialEq)]
pub struct PertDesc {
    pub w: usize,
    pub h: usize,
    /// one triangulation for all operands
    pub modes: Vec<u8>,
    pub fills: [Vec<u8>; 3],
    /// offsets of the (2w+1)x(2h+1) lattice points, in 1/32768 of 0.2
    pub offs: Vec<(i16, i16)>,
}

#[derive(Clone, Debug, PartialEq)]
pub struct StarDesc {
    pub k: usize,
    pub phase: u16,
    pub ang: Vec<u16>,
    pub rad: Vec<u16>,
    pub reverse: bool,
}

#[derive(Clone, Debug, PartialEq)]
pub struct PartDesc {
    pub jitter: (i16, i16),
    pub rmin: u16,
    pub shell: StarDesc,
    pub hole: Option<StarDesc>,
}

#[derive(Clone, Debug, PartialEq)]
pub struct GenDesc {
    /// per operand: index of a permutation of the 4 layout cells, and the parts
    pub ops: [(u8, Vec<PartDesc>); 3],
}

/// triangles around one apex: rays to lattice points, consecutive rays span a sector; each sector belongs to A, B, C
/// or nothing. Many edges meet in one vertex; no crossings anywhere (all operands use the same rays): exact.
#[derive(Clone, Debug, PartialEq)]
pub struct FanDesc {
    pub apex: (i32, i32),
    pub rays: Vec<(i8, i8)>,
    /// per sector i (between sorted ray i and i+1): bit 0 = in A, bit 1 = in B, bit 2 = in C
    pub sectors: Vec<u8>,
    pub merge: [bool; 3],
}

/// horizontal bars (A) against vertical bars (B): every pair crosses properly, so the number of crossings is far
/// larger than the number of edges. Bars are chosen by bitmasks; coordinates are small integers: exact.
#[derive(Clone, Debug, PartialEq)]
pub struct BarsDesc {
    pub k: u8,
    pub rows: u32,
    pub cols: u32,
    /// some bars of C (a third operand): horizontal, shifted by one half
    pub crows: u32,
}

#[derive(Clone, Debug, PartialEq)]
pub struct SelfXDesc {
    pub rings: [Vec<(u16, u16)>; 2],
}

/// exact map applied on top of an exact family: axis symmetry `sym` (0..8), then p -> (p + t) * 2^k, then
/// x -> x * 2^kx (anisotropic: long flat shapes whose edges cross at tiny angles; cross products scale
/// consistently, so the family stays exact as long as no two *diagonal* edges are collinear)
#[derive(Clone, Debug, PartialEq)]
pub struct Aff {
    pub sym: u8,
    pub tx: i32,
    pub ty: i32,
    pub k: i32,
    pub kx: i32,
}

#[derive(Clone, Debug, PartialEq)]
pub enum Shape {
    Rect(RectDesc),
    Oct(OctDesc),
    Pert(PertDesc),
    Gen(GenDesc),
    SelfX(SelfXDesc),
    Fan(FanDesc),
    Bars(BarsDesc),
    /// explicit operands (pinned regression inputs, replay files)
    Raw { a: MP, b: MP, c: MP, exact: bool, selfx: bool },
}

#[derive(Clone, Debug, PartialEq)]
pub struct CaseDesc {
    pub shape: Shape,
    pub aff: Option<Aff>,
    /// auxiliary choices of the property under test (pairing, transform, representation change ...)
    pub bits: u64,
}

#[derive(Clone, Debug)]
pub struct Case {
    pub family: &'static str,
    pub a: MP,
    pub b: MP,
    pub c: MP,
    /// exact-arithmetic family: tolerance 0, bitwise comparisons
    pub exact: bool,
    /// operands are to be read by the even-odd rule (self-crossing rings)
    pub selfx: bool,
    pub bits: u64,
}

impl Case {
    pub fn mag(&self) -> f64 {
        mag_of(&[&self.a, &self.b, &self.c]).max(f64::MIN_POSITIVE)
    }
    /// absolute tolerance for f64 runs
    pub fn tol(&self) -> f64 {
        if self.exact {
            0.0
        } else {
            1e-9 * self.mag()
        }
    }
    pub fn tol32(&self) -> f64 {
        if self.exact {
            0.0
        } else {
            1e-4 * self.mag()
        }
    }
}

pub fn sym_apply(sym: u8, p: P) -> P {
    let (mut x, mut y) = (p.x, p.y);
    if sym & 4 != 0 {
        std::mem::swap(&mut x, &mut y);
    }
    if sym & 1 != 0 {
        x = -x;
    }
    if sym & 2 != 0 {
        y = -y;
    }
    pt(x + 0.0, y + 0.0)
}

/// the same symmetry by plain negation: a zero coordinate becomes -0.0, as in a caller's `-x`
pub fn sym_apply_raw(sym: u8, p: P) -> P {
    let (mut x, mut y) = (p.x, p.y);
    if sym & 4 != 0 {
        std::mem::swap(&mut x, &mut y);
    }
    if sym & 1 != 0 {
        x = -x;
    }
    if sym & 2 != 0 {
        y = -y;
    }
    pt(x, y)
}

impl Aff {
    pub fn apply(&self, p: P) -> P {
        let q = sym_apply(self.sym, p);
        let s = (2.0f64).powi(self.k);
        pt((q.x + self.tx as f64) * s * (2.0f64).powi(self.kx), (q.y + self.ty as f64) * s)
    }
}

// ---------------------------------------------------------------------------------------------
// expansion

#[derive(Debug)]
pub enum Reject {
    /// generator bug: the operand failed the exact validity check
    Invalid(String),
    /// general-position margin not met (allowed, counted)
    Margin,
}

fn rect_tris(cells: &[bool], w: usize, h: usize) -> Vec<[IV; 3]> {
    let mut t = Vec::new();
    for j in 0..h {
        for i in 0..w {
            if cells[j * w + i] {
                let (x0, y0, x1, y1) = (i as i64, j as i64, i as i64 + 1, j as i64 + 1);
                t.push([(x0, y0), (x1, y0), (x1, y1)]);
                t.push([(x0, y0), (x1, y1), (x0, y1)]);
            }
        }
    }
    t
}

fn tri_centroid(t: &[IV; 3], map: &dyn Fn(IV) -> P) -> P {
    let (a, b, c) = (map(t[0]), map(t[1]), map(t[2]));
    pt((a.x + b.x + c.x) / 3.0, (a.y + b.y + c.y) / 3.0)
}

/// Samples (point, inside?) of the constructive model: the centroid of every triangle of the subdivision.
fn model_samples(all_tris: &[[IV; 3]], filled: &[[IV; 3]], map: &dyn Fn(IV) -> P) -> Vec<(P, bool)> {
    let set: BTreeSet<[IV; 3]> = filled.iter().cloned().collect();
    all_tris.iter().map(|t| (tri_centroid(t, map), set.contains(t))).collect()
}

pub const GEN_SCALE: f64 = 100.0;
const PERMS: [[u8; 4]; 24] = [
    [0, 1, 2, 3], [0, 1, 3, 2], [0, 2, 1, 3], [0, 2, 3, 1], [0, 3, 1, 2], [0, 3, 2, 1],
    [1, 0, 2, 3], [1, 0, 3, 2], [1, 2, 0, 3], [1, 2, 3, 0], [1, 3, 0, 2], [1, 3, 2, 0],
    [2, 0, 1, 3], [2, 0, 3, 1], [2, 1, 0, 3], [2, 1, 3, 0], [2, 3, 0, 1], [2, 3, 1, 0],
    [3, 0, 1, 2], [3, 0, 2, 1], [3, 1, 0, 2], [3, 1, 2, 0], [3, 2, 0, 1], [3, 2, 1, 0],
];

fn star_ring(s: &StarDesc, cx: f64, cy: f64, lo: f64, hi: f64) -> LineString<f64> {
    let k = s.k;
    let phase = s.phase as f64 / 65536.0 * 2.0 * std::f64::consts::PI;
    let mut pts = Vec::new();
    for i in 0..k {
        let u = 0.05 + 0.9 * (s.ang[i] as f64 / 65535.0);
        let ang = phase + (i as f64 + u) * 2.0 * std::f64::consts::PI / k as f64;
        let r = lo + (hi - lo) * (s.rad[i] as f64 / 65535.0);
        pts.push(pt(cx + r * ang.cos(), cy + r * ang.sin()));
    }
    if s.reverse {
        pts.reverse();
    }
    pts.push(pts[0]);
    LineString(pts)
}

fn gen_operand(perm: u8, parts: &[PartDesc]) -> MP {
    let perm = PERMS[perm as usize % 24];
    let mut v = Vec::new();
    for (i, p) in parts.iter().enumerate().take(4) {
        let cell = perm[i];
        let (ci, cj) = ((cell & 1) as f64, (cell >> 1) as f64);
        let cx = GEN_SCALE * (ci + 0.5) + p.jitter.0 as f64 / 32768.0;
        let cy = GEN_SCALE * (cj + 0.5) + p.jitter.1 as f64 / 32768.0;
        let rmax = GEN_SCALE * 0.48;
        let rmin = rmax * (0.3 + 0.6 * p.rmin as f64 / 65535.0);
        let ext = star_ring(&p.shell, cx, cy, rmin, rmax);
        let holes = match &p.hole {
            Some(h) => vec![star_ring(h, cx, cy, 0.05 * rmin, 0.3 * rmin)],
            None => vec![],
        };
        v.push(Polygon::new(ext, holes));
    }
    MultiPolygon(v)
}

/// exact validity check of one operand (see DESIGN §3). `samples`: model membership at sample points.
pub fn validate_operand(mp: &MP, samples: &[(P, bool)]) -> Result<(), String> {
    for r in rings_of(mp) {
        if r.0.len() < 4 {
            return Err(format!("ring with {} points", r.0.len()));
        }
        if r.0.first() != r.0.last() {
            return Err("open ring".into());
        }
        let e = ring_edges(r);
        if e.len() < 3 {
            return Err("ring with < 3 edges".into());
        }
        if ring_area2(r) == 0.0 {
            return Err("zero area ring".into());
        }
    }
    let edges = mp_edges(mp);
    for i in 0..edges.len() {
        for j in i + 1..edges.len() {
            if proper_cross(edges[i], edges[j]) {
                return Err(format!("edges cross: {:?} {:?}", edges[i], edges[j]));
            }
            if collinear_overlap(edges[i], edges[j]) {
                return Err(format!("edges overlap: {:?} {:?}", edges[i], edges[j]));
            }
        }
    }
    // a vertex may be used at most ... (isolated contacts are allowed); structure: polygon-wise == even-odd, parts disjoint
    let idx = PolyIndex::new(mp);
    for p in witnesses(&edges) {
        let eo = evenodd(&edges, p);
        let (pw, cnt) = idx.polywise(p);
        if eo == Side::On || pw == Side::On {
            continue;
        }
        if cnt > 1 {
            return Err(format!("parts overlap at {:?}", p));
        }
        if eo != pw {
            return Err(format!("polygon-wise != even-odd at {:?}", p));
        }
    }
    for &(p, inside) in samples {
        let s = evenodd(&edges, p);
        if s == Side::On || (s == Side::In) != inside {
            return Err(format!("model mismatch at {:?}: model {} oracle {:?}", p, inside, s));
        }
    }
    Ok(())
}

/// general-position margin over a joint edge set: every vertex at least `mu` from every edge it is not an endpoint
/// of; all proper crossing points at least `mu` apart from each other and from every edge not involved.
pub fn general_position(edges: &[Seg], mu: f64) -> bool {
    for &(v, _) in edges {
        for &e in edges {
            if e.0 == v || e.1 == v {
                continue;
            }
            if dist_point_seg(v, e) < mu {
                return false;
            }
        }
    }
    let mut xs: Vec<(P, usize, usize)> = Vec::new();
    for i in 0..edges.len() {
        for j in i + 1..edges.len() {
            let (s, t) = (edges[i], edges[j]);
            if s.0 == t.0 || s.0 == t.1 || s.1 == t.0 || s.1 == t.1 {
                continue;
            }
            if touches(s, t) {
                if !proper_cross(s, t) {
                    return false;
                }
                match approx_intersection(s, t) {
                    Some(p) => xs.push((p, i, j)),
                    None => return false,
                }
                // crossing angle must not be tiny: the computed point's error grows with 1/sin
                if abs_sin(s, t) < 1e-3 {
                    return false;
                }
            }
        }
    }
    for a in 0..xs.len() {
        for b in a + 1..xs.len() {
            if dist(xs[a].0, xs[b].0) < mu {
                return false;
            }
        }
        for (k, &e) in edges.iter().enumerate() {
            if k == xs[a].1 || k == xs[a].2 {
                continue;
            }
            if dist_point_seg(xs[a].0, e) < mu {
                return false;
            }
        }
    }
    true
}

pub const MARGIN_REL: f64 = 1e-6;

impl CaseDesc {
    pub fn family(&self) -> &'static str {
        match (&self.shape, &self.aff) {
            (Shape::Rect(d), None) if d.w > 8 => "rings",
            (Shape::Rect(_), None) => "rect",
            (Shape::Rect(_), Some(_)) => "aff-rect",
            (Shape::Oct(_), None) => "oct",
            (Shape::Oct(_), Some(a)) if a.kx != 0 => "flat-oct",
            (Shape::Oct(_), Some(_)) => "aff-oct",
            (Shape::Pert(_), _) => "pert",
            (Shape::Gen(_), _) => "gen",
            (Shape::SelfX(_), _) => "selfx",
            (Shape::Fan(_), _) => "fan",
            (Shape::Bars(_), _) => "bars",
            (Shape::Raw { .. }, _) => "raw",
        }
    }

    /// Expand into operands and validate. `want_c`: also build and validate the third operand.
    pub fn expand(&self, want_c: bool) -> Result<Case, Reject> {
        let family = self.family();
        let empty = || MultiPolygon(vec![]);
        let aff = self.aff.clone();
        let amap = move |p: P| -> P {
            match &aff {
                Some(a) => a.apply(p),
                None => p,
            }
        };
        match &self.shape {
            Shape::Rect(d) => {
                let (xs, ys): (Vec<f64>, Vec<f64>) = match &d.coords {
                    None => ((0..=d.w).map(|i| i as f64).collect(), (0..=d.h).map(|i| i as f64).collect()),
                    Some((ox, oy, sx, sy)) => {
                        let mut xs = vec![*ox as f64];
                        for i in 0..d.w {
                            let l = *xs.last().unwrap();
                            xs.push(l + (sx[i].max(1)) as f64);
                        }
                        let mut ys = vec![*oy as f64];
                        for j in 0..d.h {
                            let l = *ys.last().unwrap();
                            ys.push(l + (sy[j].max(1)) as f64);
                        }
                        (xs, ys)
                    }
                };
                let map = |p: IV| amap(pt(xs[p.0 as usize], ys[p.1 as usize]));
                let all = rect_tris(&vec![true; d.w * d.h], d.w, d.h);
                let mut out = Vec::new();
                for k in 0..3 {
                    if k == 2 && !want_c {
                        out.push(empty());
                        continue;
                    }
                    let tris = rect_tris(&d.cells[k], d.w, d.h);
                    let mp = soup_to_mp(&tris, d.merge[k], &map);
                    validate_operand(&mp, &model_samples(&all, &tris, &map)).map_err(Reject::Invalid)?;
                    out.push(mp);
                }
                let c = out.pop().unwrap();
                let b = out.pop().unwrap();
                let a = out.pop().unwrap();
                Ok(Case { family, a, b, c, exact: true, selfx: false, bits: self.bits })
            }
            Shape::Oct(d) => {
                let mut out = Vec::new();
                for k in 0..3 {
                    if k == 2 && !want_c {
                        out.push(empty());
                        continue;
                    }
                    let off = if k == 0 { (0, 0) } else { (d.off[k - 1].0 as i64 & 1, d.off[k - 1].1 as i64 & 1) };
                    let map = |p: IV| amap(pt((p.0 + off.0) as f64, (p.1 + off.1) as f64));
                    let mut tris = Vec::new();
                    let mut all = Vec::new();
                    for j in 0..d.h {
                        for i in 0..d.w {
                            let (mode, fill) = d.cells[k][j * d.w + i];
                            tris.extend(cell_tris(i as i64, j as i64, mode, fill));
                            all.extend(cell_tris(i as i64, j as i64, if mode & 3 == 0 { 1 } else { mode }, 0xf));
                        }
                    }
                    // mode 0 fills both halves together: `all` uses mode 1 for it, `tris` contains the same two triangles
                    let mp = soup_to_mp(&tris, d.merge[k], &map);
                    validate_operand(&mp, &model_samples(&all, &tris, &map)).map_err(Reject::Invalid)?;
                    out.push(mp);
                }
                let c = out.pop().unwrap();
                let b = out.pop().unwrap();
                let a = out.pop().unwrap();
                Ok(Case { family, a, b, c, exact: true, selfx: false, bits: self.bits })
            }
            Shape::Pert(d) => {
                let stride = 2 * d.w + 1;
                let map = |p: IV| {
                    let o = d.offs[(p.1 as usize) * stride + p.0 as usize];
                    pt(p.0 as f64 + 0.2 * o.0 as f64 / 32768.0, p.1 as f64 + 0.2 * o.1 as f64 / 32768.0)
                };
                let mut out = Vec::new();
                for k in 0..3 {
                    if k == 2 && !want_c {
                        out.push(empty());
                        continue;
                    }
                    let mut tris = Vec::new();
                    let mut all = Vec::new();
                    for j in 0..d.h {
                        for i in 0..d.w {
                            let mode = d.modes[j * d.w + i] & 3;
                            let mode = if mode == 0 { 1 } else { mode };
                            tris.extend(cell_tris(i as i64, j as i64, mode, d.fills[k][j * d.w + i]));
                            all.extend(cell_tris(i as i64, j as i64, mode, 0xf));
                        }
                    }
                    let mp = soup_to_mp(&tris, false, &map);
                    validate_operand(&mp, &model_samples(&all, &tris, &map)).map_err(Reject::Invalid)?;
                    out.push(mp);
                }
                let c = out.pop().unwrap();
                let b = out.pop().unwrap();
                let a = out.pop().unwrap();
                Ok(Case { family, a, b, c, exact: false, selfx: false, bits: self.bits })
            }
            Shape::Gen(d) => {
                let a = gen_operand(d.ops[0].0, &d.ops[0].1);
                let b = gen_operand(d.ops[1].0, &d.ops[1].1);
                let c = if want_c { gen_operand(d.ops[2].0, &d.ops[2].1) } else { empty() };
                for mp in [&a, &b, &c] {
                    validate_operand(mp, &[]).map_err(Reject::Invalid)?;
                }
                let mut edges = mp_edges(&a);
                edges.extend(mp_edges(&b));
                edges.extend(mp_edges(&c));
                if !general_position(&edges, MARGIN_REL * 2.0 * GEN_SCALE) {
                    return Err(Reject::Margin);
                }
                Ok(Case { family, a, b, c, exact: false, selfx: false, bits: self.bits })
            }
            Shape::Bars(d) => {
                let k = (d.k as usize).clamp(1, 30);
                let len = 2.0 * k as f64 + 1.0;
                let bar = |x0: f64, y0: f64, x1: f64, y1: f64| Polygon::new(LineString(vec![amap(pt(x0, y0)), amap(pt(x1, y0)), amap(pt(x1, y1)), amap(pt(x0, y1)), amap(pt(x0, y0))]), vec![]);
                let a = MultiPolygon((0..k).filter(|i| d.rows >> i & 1 == 1).map(|i| bar(0.0, 2.0 * i as f64 + 1.0, len, 2.0 * i as f64 + 2.0)).collect::<Vec<_>>());
                let b = MultiPolygon((0..k).filter(|j| d.cols >> j & 1 == 1).map(|j| bar(2.0 * j as f64 + 1.0, 0.0, 2.0 * j as f64 + 2.0, len)).collect::<Vec<_>>());
                let c = if want_c { MultiPolygon((0..k).filter(|i| d.crows >> i & 1 == 1).map(|i| bar(0.5, 2.0 * i as f64 + 1.5, len - 0.5, 2.0 * i as f64 + 2.5)).collect::<Vec<_>>()) } else { empty() };
                Ok(Case { family, a, b, c, exact: true, selfx: false, bits: self.bits })
            }
            Shape::Fan(d) => {
                // distinct directions, sorted by angle
                let mut rays: Vec<(i64, i64)> = Vec::new();
                for &(x, y) in &d.rays {
                    let (x, y) = (x as i64, y as i64);
                    if (x, y) == (0, 0) {
                        continue;
                    }
                    if rays.iter().any(|&(u, v)| u * y - v * x == 0 && u * x + v * y > 0) {
                        continue;
                    }
                    rays.push((x, y));
                }
                rays.sort_by(|a, b| (a.1 as f64).atan2(a.0 as f64).partial_cmp(&(b.1 as f64).atan2(b.0 as f64)).unwrap());
                let apex = (d.apex.0 as i64, d.apex.1 as i64);
                let n = rays.len();
                let mut all: Vec<[IV; 3]> = Vec::new();
                let mut per: [Vec<[IV; 3]>; 3] = [vec![], vec![], vec![]];
                for i in 0..n {
                    let (p, q) = (rays[i], rays[(i + 1) % n]);
                    if n < 2 || p.0 * q.1 - p.1 * q.0 <= 0 {
                        continue; // sector of 180 degrees or more
                    }
                    let t = [apex, (apex.0 + p.0, apex.1 + p.1), (apex.0 + q.0, apex.1 + q.1)];
                    all.push(t);
                    let code = d.sectors.get(i).cloned().unwrap_or(0);
                    for k in 0..3 {
                        if code >> k & 1 == 1 {
                            per[k].push(t);
                        }
                    }
                }
                let map = |p: IV| amap(pt(p.0 as f64, p.1 as f64));
                let mut out = Vec::new();
                for k in 0..3 {
                    if k == 2 && !want_c {
                        out.push(empty());
                        continue;
                    }
                    let mp = soup_to_mp(&per[k], d.merge[k], &map);
                    validate_operand(&mp, &model_samples(&all, &per[k], &map)).map_err(Reject::Invalid)?;
                    out.push(mp);
                }
                let c = out.pop().unwrap();
                let b = out.pop().unwrap();
                let a = out.pop().unwrap();
                Ok(Case { family, a, b, c, exact: true, selfx: false, bits: self.bits })
            }
            Shape::SelfX(d) => {
                let ring = |v: &Vec<(u16, u16)>| -> MP {
                    let mut pts: Vec<P> = v.iter().map(|&(x, y)| pt(x as f64 * (GEN_SCALE / 65536.0), y as f64 * (GEN_SCALE / 65536.0))).collect();
                    pts.push(pts[0]);
                    MultiPolygon(vec![Polygon::new(LineString(pts), vec![])])
                };
                let a = ring(&d.rings[0]);
                let b = ring(&d.rings[1]);
                let mut edges = mp_edges(&a);
                edges.extend(mp_edges(&b));
                if edges.len() < 6 || !general_position(&edges, MARGIN_REL * GEN_SCALE) {
                    return Err(Reject::Margin);
                }
                Ok(Case { family, a, b, c: empty(), exact: false, selfx: true, bits: self.bits })
            }
            Shape::Raw { a, b, c, exact, selfx } => Ok(Case { family, a: a.clone(), b: b.clone(), c: c.clone(), exact: *exact, selfx: *selfx, bits: self.bits }),
        }
    }
}

// ---------------------------------------------------------------------------------------------
// proptest strategies

pub mod strat {
    use super::*;
    use proptest::collection::vec;
    use proptest::prelude::*;

    const DENS: [f64; 6] = [0.25, 0.4, 0.5, 0.6, 0.75, 0.9];

    pub fn rect_shape(maxw: usize, maxh: usize, unit_only: bool) -> BoxedStrategy<Shape> {
        (1..=maxw, 1..=maxh, 0..DENS.len(), 0..DENS.len(), any::<bool>())
            .prop_flat_map(move |(w, h, da, db, unit)| {
                let n = w * h;
                let coords = if unit || unit_only {
                    Just(None).boxed()
                } else {
                    (-1000i32..1000, -1000i32..1000, vec(1u16..200, w), vec(1u16..200, h)).prop_map(Some).boxed()
                };
                (
                    vec(proptest::bool::weighted(DENS[da]), n),
                    vec(proptest::bool::weighted(DENS[db]), n),
                    vec(proptest::bool::weighted(0.5), n),
                    coords,
                    proptest::bool::weighted(0.7),
                    proptest::bool::weighted(0.7),
                    proptest::bool::weighted(0.7),
                )
                    .prop_map(move |(a, b, c, coords, m0, m1, m2)| Shape::Rect(RectDesc { w, h, cells: [a, b, c], coords, merge: [m0, m1, m2] }))
            })
            .boxed()
    }

    /// concentric square rings on a 2L x 2L unit grid (L = 5..=12 rings): ring r (distance r from the border) is filled
    /// in A when r is even, flipped with probability 0.15, and in B with probability 0.2 -- results nest up to
    /// twelve levels deep (exterior, hole, island, hole, ...)
    pub fn rings_shape() -> BoxedStrategy<Shape> {
        (5usize..=12)
            .prop_flat_map(|l| (Just(l), vec(proptest::bool::weighted(0.15), l), vec(proptest::bool::weighted(0.2), l), vec(proptest::bool::weighted(0.5), l), any::<bool>()))
            .prop_map(|(l, na, b, c, m)| {
                let w = 2 * l;
                let ring = |i: usize, j: usize| i.min(j).min(w - 1 - i).min(w - 1 - j);
                let mut cells = [vec![false; w * w], vec![false; w * w], vec![false; w * w]];
                for j in 0..w {
                    for i in 0..w {
                        let r = ring(i, j);
                        cells[0][j * w + i] = (r % 2 == 0) != na[r];
                        cells[1][j * w + i] = b[r];
                        cells[2][j * w + i] = c[r];
                    }
                }
                Shape::Rect(RectDesc { w, h: w, cells, coords: None, merge: [m, true, true] })
            })
            .boxed()
    }

    fn oct_cell(rect_only: bool) -> BoxedStrategy<(u8, u8)> {
        if rect_only {
            (Just(0u8), 0u8..16).boxed()
        } else {
            (0u8..4, 0u8..16).boxed()
        }
    }

    pub fn oct_shape(maxw: usize, maxh: usize) -> BoxedStrategy<Shape> {
        (1..=maxw, 1..=maxh, proptest::bool::weighted(0.15))
            .prop_flat_map(move |(w, h, rect_only)| {
                let n = w * h;
                (
                    vec(oct_cell(rect_only), n),
                    vec(oct_cell(rect_only), n),
                    vec(oct_cell(rect_only), n),
                    (0u8..2, 0u8..2),
                    (0u8..2, 0u8..2),
                    proptest::bool::weighted(0.7),
                    proptest::bool::weighted(0.7),
                    proptest::bool::weighted(0.7),
                )
                    .prop_map(move |(a, b, c, o1, o2, m0, m1, m2)| Shape::Oct(OctDesc { w, h, cells: [a, b, c], off: [o1, o2], merge: [m0, m1, m2] }))
            })
            .boxed()
    }

    pub fn pert_shape(maxw: usize, maxh: usize) -> BoxedStrategy<Shape> {
        (1..=maxw, 1..=maxh)
            .prop_flat_map(move |(w, h)| {
                let n = w * h;
                (vec(1u8..4, n), vec(0u8..16, n), vec(0u8..16, n), vec(0u8..16, n), vec((any::<i16>(), any::<i16>()), (2 * w + 1) * (2 * h + 1)))
                    .prop_map(move |(modes, a, b, c, offs)| Shape::Pert(PertDesc { w, h, modes, fills: [a, b, c], offs }))
            })
            .boxed()
    }

    fn star(kmin: usize, kmax: usize) -> BoxedStrategy<StarDesc> {
        (kmin..=kmax)
            .prop_flat_map(|k| (any::<u16>(), vec(any::<u16>(), k), vec(any::<u16>(), k), any::<bool>()).prop_map(move |(phase, ang, rad, reverse)| StarDesc { k, phase, ang, rad, reverse }))
            .boxed()
    }

    fn part() -> BoxedStrategy<PartDesc> {
        ((any::<i16>(), any::<i16>()), any::<u16>(), star(5, 8), proptest::option::weighted(0.4, star(5, 7)))
            .prop_map(|(jitter, rmin, shell, hole)| PartDesc { jitter, rmin, shell, hole })
            .boxed()
    }

    pub fn gen_shape() -> BoxedStrategy<Shape> {
        let operand = || (0u8..24, vec(part(), 1..=3));
        (operand(), operand(), operand()).prop_map(|(a, b, c)| Shape::Gen(GenDesc { ops: [a, b, c] })).boxed()
    }

    pub fn fan_shape() -> BoxedStrategy<Shape> {
        ((-20i32..20, -20i32..20), vec((-6i8..=6, -6i8..=6), 3..14), vec(0u8..8, 14), any::<bool>(), any::<bool>(), any::<bool>())
            .prop_map(|(apex, rays, sectors, m0, m1, m2)| Shape::Fan(FanDesc { apex, rays, sectors, merge: [m0, m1, m2] }))
            .boxed()
    }

    pub fn bars_shape(kmax: u8) -> BoxedStrategy<Shape> {
        (4u8..=kmax, any::<u32>(), any::<u32>(), any::<u32>(), proptest::bool::weighted(0.5))
            .prop_map(|(k, r, c, cr, full)| {
                // half of the cases use (almost) all bars: the crossing count is then maximal
                let (r, c) = if full { (r | 0x7fff_ffff & !(r & 0x3), c | 0x7fff_fffd) } else { (r, c) };
                Shape::Bars(BarsDesc { k, rows: r, cols: c, crows: cr })
            })
            .boxed()
    }

    pub fn selfx_shape() -> BoxedStrategy<Shape> {
        (vec((any::<u16>(), any::<u16>()), 4..=8), vec((any::<u16>(), any::<u16>()), 4..=8)).prop_map(|(a, b)| Shape::SelfX(SelfXDesc { rings: [a, b] })).boxed()
    }

    pub fn aff() -> BoxedStrategy<Aff> {
        (0u8..8, -1_000_000i32..1_000_000, -1_000_000i32..1_000_000, -20i32..=20).prop_map(|(sym, tx, ty, k)| Aff { sym, tx, ty, k, kx: 0 }).boxed()
    }

    /// long flat shapes: one operand from the octagonal lattice (diagonals allowed, collinear vertices merged), the
    /// other axis-parallel only, x scaled by 2^kx (kx up to `kmax`): edges cross at angles down to 2^-kmax
    pub fn flat_case(maxw: usize, maxh: usize, kmax: i32) -> BoxedStrategy<CaseDesc> {
        (1..=maxw, 1..=maxh, any::<bool>(), 1i32..=kmax, any::<u64>())
            .prop_flat_map(move |(w, h, diag_is_a, kx, bits)| {
                let n = w * h;
                let (ca, cb) = if diag_is_a { (oct_cell(false), oct_cell(true)) } else { (oct_cell(true), oct_cell(false)) };
                (vec(ca, n), vec(cb, n), vec(oct_cell(true), n), (0u8..2, 0u8..2), (0u8..2, 0u8..2)).prop_map(move |(a, b, c, o1, o2)| CaseDesc {
                    shape: Shape::Oct(OctDesc { w, h, cells: [a, b, c], off: [o1, o2], merge: [true, true, true] }),
                    aff: Some(Aff { sym: 0, tx: 0, ty: 0, k: 0, kx }),
                    bits,
                })
            })
            .boxed()
    }

    pub fn case(shape: BoxedStrategy<Shape>, with_aff: bool) -> BoxedStrategy<CaseDesc> {
        if with_aff {
            (shape, aff(), any::<u64>()).prop_map(|(shape, a, bits)| CaseDesc { shape, aff: Some(a), bits }).boxed()
        } else {
            (shape, any::<u64>()).prop_map(|(shape, bits)| CaseDesc { shape, aff: None, bits }).boxed()
        }
    }
}
