//! Replay files and readable case dumps (JSON). Coordinates are stored as hex bit patterns (exact) next to a
//! decimal rendering for the reader.
use crate::gen::{Case, CaseDesc, Shape};
use crate::geom::*;
use geo_types::{LineString, MultiPolygon, Polygon};
use serde_json::{json, Value};

pub fn mp_to_json_bits(mp: &MP) -> Value {
    Value::Array(
        mp.0.iter()
            .map(|p| {
                let mut rings = vec![p.exterior()];
                rings.extend(p.interiors().iter());
                Value::Array(rings.iter().map(|r| Value::Array(r.0.iter().map(|c| json!(format!("{:016x}:{:016x}", c.x.to_bits(), c.y.to_bits()))).collect())).collect())
            })
            .collect(),
    )
}

pub fn mp_to_json_readable(mp: &MP) -> Value {
    Value::Array(
        mp.0.iter()
            .map(|p| {
                let mut rings = vec![p.exterior()];
                rings.extend(p.interiors().iter());
                Value::Array(rings.iter().map(|r| Value::Array(r.0.iter().map(|c| json!([c.x, c.y])).collect())).collect())
            })
            .collect(),
    )
}

/// compact text rendering: polygons separated by " | ", rings by " ; "
pub fn mp_to_text(mp: &MP) -> String {
    let mut s = String::new();
    for (i, p) in mp.0.iter().enumerate() {
        if i > 0 {
            s.push_str(" | ");
        }
        let mut rings = vec![p.exterior()];
        rings.extend(p.interiors().iter());
        for (j, r) in rings.iter().enumerate() {
            if j > 0 {
                s.push_str(" ; ");
            }
            s.push_str(if j == 0 { "ext" } else { "hole" });
            for c in &r.0 {
                s.push_str(&format!(" ({},{})", c.x, c.y));
            }
        }
    }
    if mp.0.is_empty() {
        s.push_str("(empty)");
    }
    s
}

fn parse_coord(v: &Value) -> Option<f64> {
    match v {
        Value::String(s) => u64::from_str_radix(s, 16).ok().map(f64::from_bits),
        Value::Number(n) => n.as_f64(),
        _ => None,
    }
}

pub fn mp_from_json(v: &Value) -> Option<MP> {
    let mut polys = Vec::new();
    for p in v.as_array()? {
        let mut rings: Vec<LineString<f64>> = Vec::new();
        for r in p.as_array()? {
            let mut pts = Vec::new();
            for c in r.as_array()? {
                if let Some(s) = c.as_str() {
                    let (x, y) = s.split_once(':')?;
                    pts.push(pt(f64::from_bits(u64::from_str_radix(x, 16).ok()?), f64::from_bits(u64::from_str_radix(y, 16).ok()?)));
                } else {
                    let c = c.as_array()?;
                    pts.push(pt(parse_coord(c.first()?)?, parse_coord(c.get(1)?)?));
                }
            }
            rings.push(LineString(pts));
        }
        if rings.is_empty() {
            return None;
        }
        let ext = rings.remove(0);
        // do not let geo-types close rings silently: keep exactly what the file says when already closed
        polys.push(Polygon::new(ext, rings));
    }
    Some(MultiPolygon(polys))
}

pub fn case_to_json(case: &Case) -> Value {
    json!({
        "family": case.family,
        "exact": case.exact,
        "selfx": case.selfx,
        "bits": format!("{:016x}", case.bits),
        "a": mp_to_json_bits(&case.a),
        "b": mp_to_json_bits(&case.b),
        "c": mp_to_json_bits(&case.c),
        "a_text": mp_to_text(&case.a),
        "b_text": mp_to_text(&case.b),
        "c_text": mp_to_text(&case.c),
    })
}

/// short form for evidence samples
pub fn case_sample(case: &Case) -> Value {
    let mut v = json!({
        "family": case.family,
        "A": mp_to_text(&case.a),
        "B": mp_to_text(&case.b),
        "bits": format!("{:016x}", case.bits),
    });
    if !case.c.0.is_empty() {
        v["C"] = json!(mp_to_text(&case.c));
    }
    v
}

pub fn case_from_json(v: &Value) -> Option<CaseDesc> {
    let a = mp_from_json(v.get("a")?)?;
    let b = mp_from_json(v.get("b")?)?;
    let c = match v.get("c") {
        Some(c) => mp_from_json(c)?,
        None => MultiPolygon(vec![]),
    };
    let exact = v.get("exact").and_then(|x| x.as_bool()).unwrap_or(false);
    let selfx = v.get("selfx").and_then(|x| x.as_bool()).unwrap_or(false);
    let bits = match v.get("bits") {
        Some(Value::String(s)) => u64::from_str_radix(s, 16).ok()?,
        Some(Value::Number(n)) => n.as_u64()?,
        _ => 0,
    };
    Some(CaseDesc { shape: Shape::Raw { a, b, c, exact, selfx }, aff: None, bits })
}

pub fn case_digest(case: &Case) -> u64 {
    use std::collections::hash_map::DefaultHasher;
    use std::hash::{Hash, Hasher};
    let mut h = DefaultHasher::new();
    for mp in [&case.a, &case.b, &case.c] {
        mp.0.len().hash(&mut h);
        for p in &mp.0 {
            (1 + p.interiors().len()).hash(&mut h);
            for r in std::iter::once(p.exterior()).chain(p.interiors().iter()) {
                r.0.len().hash(&mut h);
                for c in &r.0 {
                    c.x.to_bits().hash(&mut h);
                    c.y.to_bits().hash(&mut h);
                }
            }
        }
    }
    case.bits.hash(&mut h);
    h.finish()
}
