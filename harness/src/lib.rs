pub mod driver;
pub mod exec;
pub mod gen;
pub mod geom;
pub mod norm;
pub mod props;
pub mod runner;
pub mod ser;
