//! Driving proptest from a binary: fixed seeds, 16 worker threads, shrinking, replay files, statistics.
use crate::gen::{Case, CaseDesc, Reject};
use crate::ser;
use proptest::strategy::BoxedStrategy;
use proptest::test_runner::{Config, RngAlgorithm, TestCaseError, TestError, TestRng, TestRunner};
use serde_json::{json, Value};
use std::collections::{BTreeMap, HashSet};
use std::sync::atomic::{AtomicBool, AtomicUsize, Ordering};
use std::sync::Mutex;

#[derive(Clone, Copy, PartialEq, Eq, Debug)]
pub enum Tier {
    Quick,
    Thorough,
}

impl Tier {
    pub fn name(self) -> &'static str {
        match self {
            Tier::Quick => "quick",
            Tier::Thorough => "thorough",
        }
    }
    pub fn pick(self, q: u64, t: u64) -> u64 {
        match self {
            Tier::Quick => q,
            Tier::Thorough => t,
        }
    }
}

/// what one evaluation of a property observed about its case
#[derive(Default)]
pub struct Obs {
    pub nontrivial: bool,
    pub classes: Vec<&'static str>,
    pub counters: Vec<(&'static str, u64)>,
}

impl Obs {
    pub fn class(&mut self, c: &'static str) {
        if !self.classes.contains(&c) {
            self.classes.push(c);
        }
    }
    pub fn count(&mut self, k: &'static str, n: u64) {
        if n > 0 {
            self.counters.push((k, n));
        }
    }
}

#[derive(Clone, Debug)]
pub struct Failure {
    pub clause: String,
    pub detail: String,
}

impl Failure {
    pub fn new(clause: impl Into<String>, detail: impl Into<String>) -> Failure {
        Failure { clause: clause.into(), detail: detail.into() }
    }
}

pub type CheckFn = dyn Fn(&Case, &mut Obs) -> Result<(), Failure> + Sync;

pub struct FamilyPlan {
    pub name: &'static str,
    pub cases: u64,
    pub strategy: Box<dyn Fn() -> BoxedStrategy<CaseDesc> + Sync>,
    pub want_c: bool,
}

#[derive(Default)]
pub struct Stats {
    pub evaluations: u64,
    pub nontrivial: HashSet<u64>,
    pub classes: BTreeMap<String, u64>,
    pub counters: BTreeMap<String, u64>,
    /// family -> (evaluations, non-trivial evaluations)
    pub per_family: BTreeMap<String, (u64, u64)>,
    pub samples: Vec<Value>,
    pub rejected_invalid: u64,
    pub rejected_invalid_example: Option<String>,
    pub skipped_margin: u64,
    pub exhaustive_parts: Vec<Value>,
}

impl Stats {
    pub fn merge(&mut self, o: Stats) {
        self.evaluations += o.evaluations;
        self.nontrivial.extend(o.nontrivial);
        for (k, v) in o.classes {
            *self.classes.entry(k).or_default() += v;
        }
        for (k, v) in o.counters {
            *self.counters.entry(k).or_default() += v;
        }
        for (k, v) in o.per_family {
            let e = self.per_family.entry(k).or_default();
            e.0 += v.0;
            e.1 += v.1;
        }
        for s in o.samples {
            if self.samples.len() < 6 {
                self.samples.push(s);
            }
        }
        self.rejected_invalid += o.rejected_invalid;
        if self.rejected_invalid_example.is_none() {
            self.rejected_invalid_example = o.rejected_invalid_example;
        }
        self.skipped_margin += o.skipped_margin;
        self.exhaustive_parts.extend(o.exhaustive_parts);
    }

    fn record(&mut self, case: &Case, obs: Obs, max_samples: usize) {
        self.evaluations += 1;
        let fam = self.per_family.entry(case.family.to_string()).or_default();
        fam.0 += 1;
        if obs.nontrivial {
            fam.1 += 1;
            let fresh = self.nontrivial.insert(ser::case_digest(case));
            if fresh && self.samples.len() < max_samples && crate::geom::mp_edges(&case.a).len() + crate::geom::mp_edges(&case.b).len() <= 24 {
                let mut s = ser::case_sample(case);
                s["classes"] = json!(obs.classes.clone());
                self.samples.push(s);
            }
        }
        for c in obs.classes {
            *self.classes.entry(c.to_string()).or_default() += 1;
        }
        for (k, n) in obs.counters {
            *self.counters.entry(k.to_string()).or_default() += n;
        }
    }
}

#[derive(Clone, Debug)]
pub struct Violation {
    pub replay: String,
    pub clause: String,
    pub detail: String,
}

pub fn verif_root() -> String {
    std::env::var("VERIF_ROOT").unwrap_or_else(|_| "/verif".to_string())
}

/// write a replay file for a failing case; returns its path
pub fn write_replay(property: &str, case: &Case, f: &Failure, extra: Value) -> String {
    let dir = format!("{}/replays", verif_root());
    let _ = std::fs::create_dir_all(&dir);
    let mut v = ser::case_to_json(case);
    v["property"] = json!(property);
    v["properties"] = json!([property]);
    v["clause"] = json!(f.clause);
    v["detail"] = json!(f.detail);
    v["extra"] = extra;
    let path = format!("{}/{}-{:016x}.json", dir, property, ser::case_digest(case));
    let _ = std::fs::write(&path, serde_json::to_string_pretty(&v).unwrap());
    path
}

fn seed_bytes(seed: u64, id: &str, family: &str, chunk: u64) -> [u8; 32] {
    // splitmix-style derivation; no ambient randomness
    fn feed(s: u64, x: u64) -> u64 {
        let mut s = s.wrapping_add(x).wrapping_mul(0xbf58_476d_1ce4_e5b9);
        s ^= s >> 29;
        s = s.wrapping_mul(0x94d0_49bb_1331_11eb);
        s ^= s >> 32;
        s
    }
    let mut s = seed ^ 0x9e37_79b9_7f4a_7c15;
    for b in id.bytes().chain(std::iter::once(0)).chain(family.bytes()) {
        s = feed(s, b as u64);
    }
    s = feed(s, chunk);
    let mut out = [0u8; 32];
    for i in 0..4 {
        s = feed(s, i as u64 + 1);
        out[i * 8..i * 8 + 8].copy_from_slice(&s.to_le_bytes());
    }
    out
}

pub fn threads() -> usize {
    std::env::var("VERIF_THREADS").ok().and_then(|s| s.parse().ok()).unwrap_or(16)
}

/// Random phase: every family is split into chunks; chunk c of family f runs its own TestRunner seeded from
/// (VERIF_SEED, property, family, c), so the set of generated cases does not depend on thread scheduling.
pub fn run_random(id: &str, seed: u64, families: &[FamilyPlan], check: &CheckFn, stats: &mut Stats, violations: &mut Vec<Violation>) {
    let mut jobs: Vec<(usize, u64, u64)> = Vec::new();
    for (fi, f) in families.iter().enumerate() {
        if f.cases == 0 {
            continue;
        }
        let chunks = (f.cases / 100).clamp(1, 64);
        for c in 0..chunks {
            let n = f.cases / chunks + if c < f.cases % chunks { 1 } else { 0 };
            if n > 0 {
                jobs.push((fi, c, n));
            }
        }
    }
    let next = AtomicUsize::new(0);
    let stop = AtomicBool::new(false);
    let results: Mutex<Vec<(usize, Stats, Option<Violation>)>> = Mutex::new(Vec::new());
    std::thread::scope(|scope| {
        for _ in 0..threads() {
            std::thread::Builder::new()
                .stack_size(16 << 20)
                .spawn_scoped(scope, || loop {
                    let j = next.fetch_add(1, Ordering::SeqCst);
                    if j >= jobs.len() || stop.load(Ordering::SeqCst) {
                        break;
                    }
                    let (fi, chunk, n) = jobs[j];
                    let fam = &families[fi];
                    let (st, viol) = run_chunk(id, seed, fam, chunk, n, check, &stop, j == 0 || chunk == 0);
                    if viol.is_some() {
                        stop.store(true, Ordering::SeqCst);
                    }
                    results.lock().unwrap().push((j, st, viol));
                })
                .unwrap();
        }
    });
    let mut res = results.into_inner().unwrap();
    res.sort_by_key(|r| r.0);
    for (_, st, v) in res {
        stats.merge(st);
        if let Some(v) = v {
            violations.push(v);
        }
    }
}

fn run_chunk(id: &str, seed: u64, fam: &FamilyPlan, chunk: u64, n: u64, check: &CheckFn, stop: &AtomicBool, sample: bool) -> (Stats, Option<Violation>) {
    let mut stats = Stats::default();
    let failed = std::cell::Cell::new(false);
    let config = Config { cases: n as u32, failure_persistence: None, max_shrink_iters: 2048, max_global_rejects: 1_000_000, ..Config::default() };
    let rng = TestRng::from_seed(RngAlgorithm::ChaCha, &seed_bytes(seed, id, fam.name, chunk));
    let mut runner = TestRunner::new_with_rng(config, rng);
    let strategy = (fam.strategy)();
    let stats_cell = std::cell::RefCell::new(&mut stats);
    let result = runner.run(&strategy, |desc| {
        if stop.load(Ordering::Relaxed) && !failed.get() {
            return Ok(());
        }
        let case = match desc.expand(fam.want_c) {
            Ok(c) => c,
            Err(Reject::Margin) => {
                if !failed.get() {
                    stats_cell.borrow_mut().skipped_margin += 1;
                }
                return Ok(());
            }
            Err(Reject::Invalid(why)) => {
                if !failed.get() {
                    let mut s = stats_cell.borrow_mut();
                    s.rejected_invalid += 1;
                    if s.rejected_invalid_example.is_none() {
                        s.rejected_invalid_example = Some(format!("{}: {:?}", why, desc));
                    }
                }
                return Ok(());
            }
        };
        let mut obs = Obs::default();
        let r = check(&case, &mut obs);
        if !failed.get() {
            stats_cell.borrow_mut().record(&case, obs, if sample { 2 } else { 0 });
        }
        match r {
            Ok(()) => Ok(()),
            Err(f) => {
                failed.set(true);
                Err(TestCaseError::fail(f.clause))
            }
        }
    });
    drop(stats_cell);
    let viol = match result {
        Ok(()) => None,
        Err(TestError::Fail(_, desc)) => Some(report_failure(id, &desc, fam.want_c, check)),
        Err(TestError::Abort(why)) => {
            eprintln!("proptest aborted in family {}: {}", fam.name, why);
            None
        }
    };
    (stats, viol)
}

/// re-evaluate the shrunk descriptor outside proptest and write the replay file
pub fn report_failure(id: &str, desc: &CaseDesc, want_c: bool, check: &CheckFn) -> Violation {
    match desc.expand(want_c) {
        Ok(case) => {
            let mut obs = Obs::default();
            let f = match check(&case, &mut obs) {
                Err(f) => f,
                Ok(()) => Failure::new("not-reproducible", "the shrunk case passed when re-evaluated outside the library"),
            };
            let path = write_replay(id, &case, &f, json!({ "descriptor": format!("{:?}", desc) }));
            Violation { replay: path, clause: f.clause, detail: f.detail }
        }
        Err(e) => Violation { replay: String::from("(none)"), clause: "shrunk-case-rejected".into(), detail: format!("{:?}", e) },
    }
}

/// Deterministic enumeration of `total` descriptors (exhaustive spaces, pinned inputs), in parallel.
pub fn run_indexed(id: &str, label: &str, total: u64, make: &(dyn Fn(u64) -> Option<CaseDesc> + Sync), want_c: bool, check: &CheckFn, stats: &mut Stats, violations: &mut Vec<Violation>, exhaustive: bool) {
    let next = AtomicUsize::new(0);
    let block = 256u64;
    let nblocks = ((total + block - 1) / block) as usize;
    let found: Mutex<Vec<Violation>> = Mutex::new(Vec::new());
    let results: Mutex<Vec<(usize, Stats)>> = Mutex::new(Vec::new());
    let stop = AtomicBool::new(false);
    std::thread::scope(|scope| {
        for _ in 0..threads() {
            std::thread::Builder::new()
                .stack_size(16 << 20)
                .spawn_scoped(scope, || loop {
                    let b = next.fetch_add(1, Ordering::SeqCst);
                    if b >= nblocks || stop.load(Ordering::SeqCst) {
                        break;
                    }
                    let mut st = Stats::default();
                    for i in (b as u64 * block)..((b as u64 + 1) * block).min(total) {
                        let desc = match make(i) {
                            Some(d) => d,
                            None => continue,
                        };
                        let case = match desc.expand(want_c) {
                            Ok(c) => c,
                            Err(Reject::Margin) => {
                                st.skipped_margin += 1;
                                continue;
                            }
                            Err(Reject::Invalid(why)) => {
                                st.rejected_invalid += 1;
                                if st.rejected_invalid_example.is_none() {
                                    st.rejected_invalid_example = Some(format!("{}: {:?}", why, desc));
                                }
                                continue;
                            }
                        };
                        let mut obs = Obs::default();
                        let r = check(&case, &mut obs);
                        st.record(&case, obs, if b == 0 { 1 } else { 0 });
                        if let Err(f) = r {
                            let path = write_replay(id, &case, &f, json!({ "space": label, "index": i }));
                            found.lock().unwrap().push(Violation { replay: path, clause: f.clause, detail: f.detail });
                            stop.store(true, Ordering::SeqCst);
                            break;
                        }
                    }
                    results.lock().unwrap().push((b, st));
                })
                .unwrap();
        }
    });
    let mut res = results.into_inner().unwrap();
    res.sort_by_key(|r| r.0);
    let before = stats.evaluations;
    for (_, st) in res {
        stats.merge(st);
    }
    let fv = found.into_inner().unwrap();
    let complete = fv.is_empty();
    violations.extend(fv);
    if exhaustive {
        stats.exhaustive_parts.push(json!({ "space": label, "size": total, "evaluated": stats.evaluations - before, "complete": complete }));
    }
}
