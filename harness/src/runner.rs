//! Driving proptest from a binary: fixed seeds, 16 worker threads, shrinking, replay files, statistics.
use crate::gen::{Case, CaseDesc, Reject};
use crate::ser;
use proptest::strategy::BoxedStrategy;
use proptest::test_runner::{Config, RngAlgorithm, TestCaseError, TestError, TestRng, TestRunner};
use serde_json::{json, Value};
use std::collections::{BTreeMap, HashSet};
use std::sync::atomic::{AtomicBool, AtomicUsize, Ordering};
use std::sync::Mutex;

#[derive(Clone, Copy, PartialEq, Eq, Debug)]
pub enum Tier {
    Quick,
    Thorough,
}

impl Tier {
    pub fn name(self) -> &'static str {
        match self {
            Tier::Quick => "quick",
            Tier::Thorough => "thorough",
        }
    }
    pub fn pick(self, q: u64, t: u64) -> u64 {
        match self {
            Tier::Quick => q,
            Tier::Thorough => t,
        }
    }
}

/// what one evaluation of a property observed about its case
#[derive(Default)]
pub struct Obs {
    pub nontrivial: bool,
    pub classes: Vec<&'static str>,
    pub counters: Vec<(&'static str, u64)>,
}

impl Obs {
    pub fn class(&mut self, c: &'static str) {
        if !self.classes.contains(&c) {
            self.classes.push(c);
        }
    }
    pub fn count(&mut self, k: &'static str, n: u64) {
        if n > 0 {
            self.counters.push((k, n));
        }
    }
}

#[derive(Clone, Debug)]
pub struct Failure {
    pub clause: String,
    pub detail: String,
}

impl Failure {
    pub fn new(clause: impl Into<String>, detail: impl Into<String>) -> Failure {
        Failure { clause: clause.into(), detail: detail.into() }
    }
}

pub type CheckFn = dyn Fn(&Case, &mut Obs) -> Result<(), Failure> + Sync;

pub struct FamilyPlan {
    pub name: &'static str,
    pub cases: u64,
    pub strategy: Box<dyn Fn() -> BoxedStrategy<CaseDesc> + Sync>,
    pub want_c: bool,
}

#[derive(Default)]
pub struct Stats {
    pub evaluations: u64,
    pub nontrivial: HashSet<u64>,
    pub classes: BTreeMap<String, u64>,
    pub counters: BTreeMap<String, u64>,
    /// family -> (evaluations, non-trivial evaluations)
    pub per_family: BTreeMap<String, (u64, u64)>,
    pub samples: Vec<Value>,
    pub rejected_invalid: u64,
    pub rejected_invalid_example: Option<String>,
    pub skipped_margin: u64,
    pub exhaustive_parts: Vec<Value>,
}

impl Stats {
    pub fn merge(&mut self, o: Stats) {
        self.evaluations += o.evaluations;
        self.nontrivial.extend(o.nontrivial);
        for (k, v) in o.classes {
            *self.classes.entry(k).or_default() += v;
        }
        for (k, v) in o.counters {
            *self.counters.entry(k).or_default() += v;
        }
        for (k, v) in o.per_family {
            let e = self.per_family.entry(k).or_default();
            e.0 += v.0;
            e.1 += v.1;
        }
        for s in o.samples {
            if self.samples.len() < 6 {
                self.samples.push(s);
            }
        }
        self.rejected_invalid += o.rejected_invalid;
        if self.rejected_invalid_example.is_none() {
            self.rejected_invalid_example = o.rejected_invalid_example;
        }
        self.skipped_margin += o.skipped_margin;
        self.exhaustive_parts.extend(o.exhaustive_parts);
    }
}

#[derive(Clone, Debug)]
pub struct Violation {
    pub replay: String,
    pub clause: String,
    pub detail: String,
}

pub fn verif_root() -> String {
    std::env::var("VERIF_ROOT").unwrap_or_else(|_| "/verif".to_string())
}

/// write a replay file for a failing case; returns its path
pub fn write_replay(property: &str, case: &Case, f: &Failure, extra: Value) -> String {
    let dir = format!("{}/replays", verif_root());
    let _ = std::fs::create_dir_all(&dir);
    let mut v = ser::case_to_json(case);
    v["property"] = json!(property);
    v["properties"] = json!([property]);
    v["clause"] = json!(f.clause);
    v["detail"] = json!(f.detail);
    v["extra"] = extra;
    let path = format!("{}/{}-{:016x}.json", dir, property, ser::case_digest(case));
    let _ = std::fs::write(&path, serde_json::to_string_pretty(&v).unwrap());
    path
}

fn seed_bytes(seed: u64, id: &str, family: &str, chunk: u64) -> [u8; 32] {
    // splitmix-style derivation; no ambient randomness
    fn feed(s: u64, x: u64) -> u64 {
        let mut s = s.wrapping_add(x).wrapping_mul(0xbf58_476d_1ce4_e5b9);
        s ^= s >> 29;
        s = s.wrapping_mul(0x94d0_49bb_1331_11eb);
        s ^= s >> 32;
        s
    }
    let mut s = seed ^ 0x9e37_79b9_7f4a_7c15;
    for b in id.bytes().chain(std::iter::once(0)).chain(family.bytes()) {
        s = feed(s, b as u64);
    }
    s = feed(s, chunk);
    let mut out = [0u8; 32];
    for i in 0..4 {
        s = feed(s, i as u64 + 1);
        out[i * 8..i * 8 + 8].copy_from_slice(&s.to_le_bytes());
    }
    out
}

// ---------------------------------------------------------------------------------------------
// watchdog: a call of the code under test that does not return (e.g. a sort that never terminates because the event
// order became inconsistent) must not hang the check. Wall-clock expiry is *inconclusive* (exit 2), never a violation.

pub const WATCH_SLOTS: usize = 64;
/// per worker: (start of the current evaluation in ms since process start, or 0), (plan index << 40 | chunk << 24 | case ordinal)
pub static WATCH: [(std::sync::atomic::AtomicU64, std::sync::atomic::AtomicU64); WATCH_SLOTS] = {
    #[allow(clippy::declare_interior_mutable_const)]
    const Z: (std::sync::atomic::AtomicU64, std::sync::atomic::AtomicU64) = (std::sync::atomic::AtomicU64::new(0), std::sync::atomic::AtomicU64::new(0));
    [Z; WATCH_SLOTS]
};
static NEXT_SLOT: AtomicUsize = AtomicUsize::new(0);
thread_local! { static MY_SLOT: usize = NEXT_SLOT.fetch_add(1, Ordering::SeqCst) % WATCH_SLOTS; }

fn process_start() -> std::time::Instant {
    use std::sync::OnceLock;
    static T0: OnceLock<std::time::Instant> = OnceLock::new();
    *T0.get_or_init(std::time::Instant::now)
}

pub fn watch_begin(info: u64) {
    let ms = process_start().elapsed().as_millis() as u64 + 1;
    MY_SLOT.with(|s| {
        WATCH[*s].1.store(info, Ordering::Relaxed);
        WATCH[*s].0.store(ms, Ordering::Relaxed);
    });
}

pub fn watch_end() {
    MY_SLOT.with(|s| WATCH[*s].0.store(0, Ordering::Relaxed));
}

/// spawn the watchdog: `per_case_s` for one evaluation, `total_s` for the whole run
pub fn spawn_watchdog(id: String, per_case_s: u64, total_s: u64) {
    process_start();
    std::thread::spawn(move || loop {
        std::thread::sleep(std::time::Duration::from_secs(2));
        let now = process_start().elapsed().as_millis() as u64 + 1;
        if now / 1000 > total_s {
            println!("INCONCLUSIVE: property={} the run exceeded its wall-clock limit of {} s", id, total_s);
            std::process::exit(2);
        }
        for slot in WATCH.iter() {
            let start = slot.0.load(Ordering::Relaxed);
            if start != 0 && now > start && (now - start) / 1000 > per_case_s {
                let info = slot.1.load(Ordering::Relaxed);
                println!(
                    "INCONCLUSIVE: property={} one evaluation did not return within {} s (plan #{} chunk {} case ordinal {}; deterministic for the same VERIF_SEED): a call of the code under test probably does not terminate",
                    id,
                    per_case_s,
                    info >> 40,
                    (info >> 24) & 0xffff,
                    info & 0xff_ffff
                );
                std::process::exit(2);
            }
        }
    });
}

pub fn threads() -> usize {
    std::env::var("VERIF_THREADS").ok().and_then(|s| s.parse().ok()).unwrap_or(16)
}

/// result of evaluating one generated descriptor
pub struct Eval {
    pub obs: Obs,
    pub result: Result<(), Failure>,
    pub digest: u64,
    pub family: &'static str,
    /// small enough to be shown as a sample in the evidence
    pub sample: Option<Value>,
    pub skip: Option<Reject>,
}

impl Eval {
    pub fn skipped(r: Reject) -> Eval {
        Eval { obs: Obs::default(), result: Ok(()), digest: 0, family: "", sample: None, skip: Some(r) }
    }
}

/// a generated domain: strategy, evaluation and replay serialisation of descriptors of type D
pub struct Plan<'a, D> {
    pub name: &'static str,
    pub cases: u64,
    pub strategy: Box<dyn Fn() -> BoxedStrategy<D> + Sync + 'a>,
    /// evaluate a descriptor (second argument: a sample rendering is wanted)
    pub eval: Box<dyn Fn(&D, bool) -> Eval + Sync + 'a>,
    /// replay file content for a failing descriptor
    pub replay: Box<dyn Fn(&D, &Failure) -> Value + Sync + 'a>,
}

impl Stats {
    fn record_eval(&mut self, e: Eval, max_samples: usize) {
        if let Some(r) = e.skip {
            match r {
                Reject::Margin => self.skipped_margin += 1,
                Reject::Invalid(why) => {
                    self.rejected_invalid += 1;
                    if self.rejected_invalid_example.is_none() {
                        self.rejected_invalid_example = Some(why);
                    }
                }
            }
            return;
        }
        self.evaluations += 1;
        let fam = self.per_family.entry(e.family.to_string()).or_default();
        fam.0 += 1;
        if e.obs.nontrivial {
            fam.1 += 1;
            let fresh = self.nontrivial.insert(e.digest);
            if fresh && self.samples.len() < max_samples {
                if let Some(mut s) = e.sample {
                    if let Value::Object(_) = s {
                        s["classes"] = json!(e.obs.classes.clone());
                    }
                    self.samples.push(s);
                }
            }
        }
        for c in e.obs.classes {
            *self.classes.entry(c.to_string()).or_default() += 1;
        }
        for (k, n) in e.obs.counters {
            *self.counters.entry(k.to_string()).or_default() += n;
        }
    }
}

pub fn write_replay_value(property: &str, digest: u64, mut v: Value, f: &Failure) -> String {
    let dir = format!("{}/replays", verif_root());
    let _ = std::fs::create_dir_all(&dir);
    v["property"] = json!(property);
    v["properties"] = json!([property]);
    v["clause"] = json!(f.clause);
    v["detail"] = json!(f.detail);
    let path = format!("{}/{}-{:016x}.json", dir, property, digest);
    let _ = std::fs::write(&path, serde_json::to_string_pretty(&v).unwrap());
    path
}

/// Random phase: every plan is split into chunks; chunk c of plan p runs its own TestRunner seeded from
/// (VERIF_SEED, property, plan name, c), so the set of generated cases does not depend on thread scheduling.
pub fn run_plans<D: std::fmt::Debug + Clone>(id: &str, seed: u64, plans: &[Plan<D>], stats: &mut Stats, violations: &mut Vec<Violation>) {
    let mut jobs: Vec<(usize, u64, u64)> = Vec::new();
    for (fi, f) in plans.iter().enumerate() {
        if f.cases == 0 {
            continue;
        }
        let chunks = (f.cases / 100).clamp(1, 64);
        for c in 0..chunks {
            let n = f.cases / chunks + if c < f.cases % chunks { 1 } else { 0 };
            if n > 0 {
                jobs.push((fi, c, n));
            }
        }
    }
    let next = AtomicUsize::new(0);
    let stop = AtomicBool::new(false);
    let results: Mutex<Vec<(usize, Stats, Option<Violation>)>> = Mutex::new(Vec::new());
    std::thread::scope(|scope| {
        for _ in 0..threads() {
            std::thread::Builder::new()
                .stack_size(16 << 20)
                .spawn_scoped(scope, || loop {
                    let j = next.fetch_add(1, Ordering::SeqCst);
                    if j >= jobs.len() || stop.load(Ordering::SeqCst) {
                        break;
                    }
                    let (fi, chunk, n) = jobs[j];
                    let (st, viol) = run_chunk(id, seed, &plans[fi], fi, chunk, n, &stop, chunk == 0);
                    if viol.is_some() {
                        stop.store(true, Ordering::SeqCst);
                    }
                    results.lock().unwrap().push((j, st, viol));
                })
                .unwrap();
        }
    });
    let mut res = results.into_inner().unwrap();
    res.sort_by_key(|r| r.0);
    for (_, st, v) in res {
        stats.merge(st);
        if let Some(v) = v {
            violations.push(v);
        }
    }
}

fn run_chunk<D: std::fmt::Debug + Clone>(id: &str, seed: u64, plan: &Plan<D>, plan_index: usize, chunk: u64, n: u64, stop: &AtomicBool, sample: bool) -> (Stats, Option<Violation>) {
    let mut stats = Stats::default();
    let failed = std::cell::Cell::new(false);
    let ordinal = std::cell::Cell::new(0u64);
    let config = Config { cases: n as u32, failure_persistence: None, max_shrink_iters: 2048, max_global_rejects: 1_000_000, ..Config::default() };
    let rng = TestRng::from_seed(RngAlgorithm::ChaCha, &seed_bytes(seed, id, plan.name, chunk));
    let mut runner = TestRunner::new_with_rng(config, rng);
    let strategy = (plan.strategy)();
    let stats_cell = std::cell::RefCell::new(&mut stats);
    let result = runner.run(&strategy, |desc| {
        if stop.load(Ordering::Relaxed) && !failed.get() {
            return Ok(());
        }
        let counting = !failed.get();
        ordinal.set(ordinal.get() + 1);
        watch_begin(((plan_index as u64) << 40) | ((chunk & 0xffff) << 24) | (ordinal.get() & 0xff_ffff));
        let mut e = (plan.eval)(&desc, counting && sample);
        watch_end();
        let r = std::mem::replace(&mut e.result, Ok(()));
        if counting {
            stats_cell.borrow_mut().record_eval(e, if sample { 2 } else { 0 });
        }
        match r {
            Ok(()) => Ok(()),
            Err(f) => {
                failed.set(true);
                Err(TestCaseError::fail(f.clause))
            }
        }
    });
    drop(stats_cell);
    let viol = match result {
        Ok(()) => None,
        Err(TestError::Fail(_, desc)) => {
            // re-evaluate the shrunk descriptor outside proptest and write the replay file
            let e = (plan.eval)(&desc, false);
            let f = match e.result {
                Err(f) => f,
                Ok(()) => Failure::new("not-reproducible", "the shrunk case passed when re-evaluated outside the library"),
            };
            let mut v = (plan.replay)(&desc, &f);
            if let Value::Object(_) = v {
                v["descriptor"] = json!(format!("{:?}", desc));
            }
            let path = write_replay_value(id, e.digest, v, &f);
            Some(Violation { replay: path, clause: f.clause, detail: f.detail })
        }
        Err(TestError::Abort(why)) => {
            eprintln!("proptest aborted in plan {}: {}", plan.name, why);
            None
        }
    };
    (stats, viol)
}

/// evaluation of a geometric case descriptor with a property check
pub fn eval_case(desc: &CaseDesc, want_c: bool, check: &CheckFn, want_sample: bool) -> Eval {
    match desc.expand(want_c) {
        Err(Reject::Invalid(why)) => Eval::skipped(Reject::Invalid(format!("{}: {:?}", why, desc))),
        Err(r) => Eval::skipped(r),
        Ok(case) => {
            let mut obs = Obs::default();
            let result = check(&case, &mut obs);
            let small = crate::geom::mp_edges(&case.a).len() + crate::geom::mp_edges(&case.b).len() <= 24;
            Eval { obs, result, digest: ser::case_digest(&case), family: case.family, sample: if want_sample && small { Some(ser::case_sample(&case)) } else { None }, skip: None }
        }
    }
}

pub fn replay_case(desc: &CaseDesc, want_c: bool) -> Value {
    match desc.expand(want_c) {
        Ok(case) => ser::case_to_json(&case),
        Err(e) => json!({ "rejected": format!("{:?}", e) }),
    }
}

pub fn case_plans<'a>(families: &'a [FamilyPlan], check: &'a CheckFn) -> Vec<Plan<'a, CaseDesc>> {
    families
        .iter()
        .map(|f| {
            let want_c = f.want_c;
            Plan {
                name: f.name,
                cases: f.cases,
                strategy: Box::new(move || (f.strategy)()),
                eval: Box::new(move |d: &CaseDesc, s: bool| eval_case(d, want_c, check, s)),
                replay: Box::new(move |d: &CaseDesc, _f: &Failure| replay_case(d, want_c)),
            }
        })
        .collect()
}

pub fn run_random(id: &str, seed: u64, families: &[FamilyPlan], check: &CheckFn, stats: &mut Stats, violations: &mut Vec<Violation>) {
    let plans = case_plans(families, check);
    run_plans(id, seed, &plans, stats, violations);
}

/// Deterministic enumeration of `total` descriptors (exhaustive spaces, pinned inputs), in parallel.
pub fn run_indexed_g<D: std::fmt::Debug + Clone>(id: &str, label: &str, total: u64, make: &(dyn Fn(u64) -> Option<D> + Sync), plan: &Plan<D>, stats: &mut Stats, violations: &mut Vec<Violation>, exhaustive: bool) {
    let next = AtomicUsize::new(0);
    let block = 256u64;
    let nblocks = ((total + block - 1) / block) as usize;
    let found: Mutex<Vec<Violation>> = Mutex::new(Vec::new());
    let results: Mutex<Vec<(usize, Stats)>> = Mutex::new(Vec::new());
    let stop = AtomicBool::new(false);
    std::thread::scope(|scope| {
        for _ in 0..threads() {
            std::thread::Builder::new()
                .stack_size(16 << 20)
                .spawn_scoped(scope, || loop {
                    let b = next.fetch_add(1, Ordering::SeqCst);
                    if b >= nblocks || stop.load(Ordering::SeqCst) {
                        break;
                    }
                    let mut st = Stats::default();
                    for i in (b as u64 * block)..((b as u64 + 1) * block).min(total) {
                        let desc = match make(i) {
                            Some(d) => d,
                            None => continue,
                        };
                        watch_begin((0xffu64 << 40) | (i & 0xff_ffff));
                        let mut e = (plan.eval)(&desc, b == 0);
                        watch_end();
                        let r = std::mem::replace(&mut e.result, Ok(()));
                        let digest = e.digest;
                        st.record_eval(e, if b == 0 { 1 } else { 0 });
                        if let Err(f) = r {
                            let mut v = (plan.replay)(&desc, &f);
                            if let Value::Object(_) = v {
                                v["space"] = json!(label);
                                v["index"] = json!(i);
                            }
                            let path = write_replay_value(id, digest, v, &f);
                            found.lock().unwrap().push(Violation { replay: path, clause: f.clause, detail: f.detail });
                            stop.store(true, Ordering::SeqCst);
                            break;
                        }
                    }
                    results.lock().unwrap().push((b, st));
                })
                .unwrap();
        }
    });
    let mut res = results.into_inner().unwrap();
    res.sort_by_key(|r| r.0);
    let before = stats.evaluations;
    for (_, st) in res {
        stats.merge(st);
    }
    let fv = found.into_inner().unwrap();
    let complete = fv.is_empty();
    violations.extend(fv);
    if exhaustive {
        stats.exhaustive_parts.push(json!({ "space": label, "size": total, "evaluated": stats.evaluations - before, "complete": complete }));
    }
}

pub fn run_indexed(id: &str, label: &str, total: u64, make: &(dyn Fn(u64) -> Option<CaseDesc> + Sync), want_c: bool, check: &CheckFn, stats: &mut Stats, violations: &mut Vec<Violation>, exhaustive: bool) {
    let plan: Plan<CaseDesc> = Plan {
        name: "indexed",
        cases: total,
        strategy: Box::new(|| unreachable!()),
        eval: Box::new(move |d: &CaseDesc, s: bool| eval_case(d, want_c, check, s)),
        replay: Box::new(move |d: &CaseDesc, _f: &Failure| replay_case(d, want_c)),
    };
    run_indexed_g(id, label, total, make, &plan, stats, violations, exhaustive);
}
