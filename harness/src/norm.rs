//! Ring normal form, ring/polygon multisets, canonical operands, region equality.
use crate::geom::*;
use geo_types::{LineString, MultiPolygon, Polygon};

pub type Ring = Vec<(u64, u64)>;

/// order-preserving map f64 -> u64 (with -0.0 == 0.0)
pub fn fkey(x: f64) -> u64 {
    let x = if x == 0.0 { 0.0 } else { x };
    let b = x.to_bits();
    if b >> 63 == 1 {
        !b
    } else {
        b | (1 << 63)
    }
}

pub fn key(c: P) -> (u64, u64) {
    (fkey(c.x), fkey(c.y))
}

/// Drop closing point and repeated consecutive vertices, orient CCW, rotate to the least rotation.
pub fn norm_ring(ls: &LineString<f64>) -> Ring {
    let mut pts: Vec<P> = ls.0.clone();
    if pts.len() > 1 && pts[0] == pts[pts.len() - 1] {
        pts.pop();
    }
    pts.dedup();
    while pts.len() > 1 && pts[0] == pts[pts.len() - 1] {
        pts.pop();
    }
    let mut a = 0.0;
    for i in 0..pts.len() {
        let p = pts[i];
        let q = pts[(i + 1) % pts.len()];
        a += p.x * q.y - q.x * p.y;
    }
    if a < 0.0 {
        pts.reverse();
    }
    let ks: Vec<(u64, u64)> = pts.iter().map(|&c| key(c)).collect();
    let n = ks.len();
    if n == 0 {
        return vec![];
    }
    // least rotation: start at a minimal element; ties broken by full comparison
    let m = *ks.iter().min().unwrap();
    let mut best: Option<Ring> = None;
    for s in 0..n {
        if ks[s] != m {
            continue;
        }
        let r: Ring = (0..n).map(|i| ks[(s + i) % n]).collect();
        if best.as_ref().map(|b| r < *b).unwrap_or(true) {
            best = Some(r);
        }
    }
    best.unwrap_or_default()
}

pub fn ring_set(mp: &MP) -> Vec<Ring> {
    let mut v: Vec<Ring> = Vec::new();
    for p in &mp.0 {
        v.push(norm_ring(p.exterior()));
        for h in p.interiors() {
            v.push(norm_ring(h));
        }
    }
    v.sort();
    v
}

/// normalised structure: polygons as (exterior, sorted holes), sorted
pub fn poly_set(mp: &MP) -> Vec<(Ring, Vec<Ring>)> {
    let mut v: Vec<(Ring, Vec<Ring>)> = mp
        .0
        .iter()
        .map(|p| {
            let mut h: Vec<Ring> = p.interiors().iter().map(norm_ring).collect();
            h.sort();
            (norm_ring(p.exterior()), h)
        })
        .collect();
    v.sort();
    v
}

/// the multiset of rings exactly as given (no reorientation, no rotation): for "handed back unchanged" checks
pub fn raw_ring_set(mp: &MP) -> Vec<Vec<(u64, u64)>> {
    let mut v: Vec<Vec<(u64, u64)>> = rings_of(mp).iter().map(|r| r.0.iter().map(|c| (c.x.to_bits(), c.y.to_bits())).collect()).collect();
    v.sort();
    v
}

/// No vertex of a ring of `mp` lies on a different ring of `mp` or on a non-incident edge of its own ring, and no
/// ring has collinear consecutive edges... (the last is NOT required). Only for such operands is "the same
/// region" the same as "the same set of rings".
pub fn canonical(mp: &MP) -> bool {
    let rings: Vec<Vec<Seg>> = rings_of(mp).iter().map(|r| ring_edges(r)).collect();
    for (i, ri) in rings.iter().enumerate() {
        for (ei, e) in ri.iter().enumerate() {
            let v = e.0;
            for (j, rj) in rings.iter().enumerate() {
                for (fj, f) in rj.iter().enumerate() {
                    if i == j {
                        let n = ri.len();
                        // incident edges of vertex e.0: edge ei (starts at v) and edge ei-1 (ends at v)
                        if fj == ei || fj == (ei + n - 1) % n {
                            continue;
                        }
                    }
                    if on_seg(*f, v) {
                        return false;
                    }
                }
            }
        }
    }
    true
}

/// all vertices of every ring are "corners": no vertex is collinear with its two neighbours.
pub fn no_collinear_vertices(mp: &MP) -> bool {
    for r in rings_of(mp) {
        let e = ring_edges(r);
        let n = e.len();
        for i in 0..n {
            let (a, b) = e[i];
            let c = e[(i + 1) % n].1;
            if orient(a, b, c) == 0.0 {
                return false;
            }
        }
    }
    true
}

/// Region equality of two multipolygons read polygon-wise, on one witness per face of the arrangement of both
/// edge sets; witnesses closer than `tol` to an edge of either are skipped. Returns Err(witness) on mismatch.
pub fn same_region(r1: &MP, r2: &MP, tol: f64) -> Result<usize, P> {
    let mut edges = mp_edges(r1);
    edges.extend(mp_edges(r2));
    let i1 = PolyIndex::new(r1);
    let i2 = PolyIndex::new(r2);
    let mut n = 0;
    for p in witnesses(&edges) {
        if tol > 0.0 && edges.iter().any(|&s| dist_point_seg(p, s) < tol) {
            continue;
        }
        let (s1, _) = i1.polywise(p);
        let (s2, _) = i2.polywise(p);
        if s1 == Side::On || s2 == Side::On {
            continue;
        }
        if s1 != s2 {
            return Err(p);
        }
        n += 1;
    }
    Ok(n)
}

pub fn mp_from_rings(polys: Vec<(Vec<P>, Vec<Vec<P>>)>) -> MP {
    MultiPolygon(polys.into_iter().map(|(e, hs)| Polygon::new(LineString(e), hs.into_iter().map(LineString).collect())).collect())
}
