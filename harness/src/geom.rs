//! Oracle kit: exact predicates, even-odd membership, witnesses, distances, areas.
//! Independent of the code under test (only `robust::orient2d` and coordinate comparisons).
use geo_types::{Coord, LineString, MultiPolygon, Polygon};
use robust::{orient2d, Coord as RC};

pub type P = Coord<f64>;
pub type Seg = (P, P);
pub type MP = MultiPolygon<f64>;

#[inline]
pub fn pt(x: f64, y: f64) -> P {
    Coord { x, y }
}

#[inline]
pub fn orient(a: P, b: P, c: P) -> f64 {
    orient2d(RC { x: a.x, y: a.y }, RC { x: b.x, y: b.y }, RC { x: c.x, y: c.y })
}

#[derive(Clone, Copy, PartialEq, Eq, Debug)]
pub enum Side {
    In,
    Out,
    On,
}

#[inline]
pub fn in_box(s: Seg, p: P) -> bool {
    p.x >= s.0.x.min(s.1.x) && p.x <= s.0.x.max(s.1.x) && p.y >= s.0.y.min(s.1.y) && p.y <= s.0.y.max(s.1.y)
}

/// p lies on the closed segment s (exact)
#[inline]
pub fn on_seg(s: Seg, p: P) -> bool {
    in_box(s, p) && orient(s.0, s.1, p) == 0.0
}

/// p lies on s and is not one of its endpoints (exact)
#[inline]
pub fn strictly_inside(s: Seg, p: P) -> bool {
    p != s.0 && p != s.1 && on_seg(s, p)
}

/// number of edges strictly below p (vertical ray downwards), half-open in x. None if p lies on an edge.
pub fn crossings_below(edges: &[Seg], p: P) -> Option<usize> {
    let mut n = 0;
    for &(a, b) in edges {
        if a.x == b.x {
            if p.x == a.x && p.y >= a.y.min(b.y) && p.y <= a.y.max(b.y) {
                return None;
            }
            continue;
        }
        let (l, r) = if a.x < b.x { (a, b) } else { (b, a) };
        if l.x <= p.x && p.x < r.x {
            let o = orient(l, r, p);
            if o == 0.0 {
                return None;
            }
            if o > 0.0 {
                n += 1;
            }
        } else if p.x == r.x && p.y == r.y {
            return None;
        }
    }
    Some(n)
}

/// edges of a ring as given (consecutive repeated points dropped; an open ring is closed, as geo-types does)
pub fn ring_edges(ls: &LineString<f64>) -> Vec<Seg> {
    let mut v = Vec::new();
    let pts = &ls.0;
    if pts.is_empty() {
        return v;
    }
    for i in 0..pts.len() - 1 {
        if pts[i] != pts[i + 1] {
            v.push((pts[i], pts[i + 1]));
        }
    }
    if pts[0] != pts[pts.len() - 1] {
        v.push((pts[pts.len() - 1], pts[0]));
    }
    v
}

pub fn poly_edges(p: &Polygon<f64>) -> Vec<Seg> {
    let mut v = ring_edges(p.exterior());
    for h in p.interiors() {
        v.extend(ring_edges(h));
    }
    v
}

pub fn mp_edges(mp: &MP) -> Vec<Seg> {
    mp.0.iter().flat_map(poly_edges).collect()
}

pub fn rings_of(mp: &MP) -> Vec<&LineString<f64>> {
    let mut v = Vec::new();
    for p in &mp.0 {
        v.push(p.exterior());
        for h in p.interiors() {
            v.push(h);
        }
    }
    v
}

/// even-odd membership over an edge set
pub fn evenodd(edges: &[Seg], p: P) -> Side {
    match crossings_below(edges, p) {
        None => Side::On,
        Some(n) => {
            if n % 2 == 1 {
                Side::In
            } else {
                Side::Out
            }
        }
    }
}

/// Pre-split rings of a multipolygon for repeated polygon-wise queries.
pub struct PolyIndex {
    pub polys: Vec<(Vec<Seg>, Vec<Vec<Seg>>)>,
}

impl PolyIndex {
    pub fn new(mp: &MP) -> PolyIndex {
        PolyIndex {
            polys: mp.0.iter().map(|p| (ring_edges(p.exterior()), p.interiors().iter().map(ring_edges).collect())).collect(),
        }
    }
    /// polygon-wise reading: inside some polygon's exterior (even-odd of that ring alone) and outside all of that
    /// polygon's holes. Returns (side, number of polygons containing p).
    pub fn polywise(&self, p: P) -> (Side, usize) {
        let mut cnt = 0;
        for (ext, holes) in &self.polys {
            let e = evenodd(ext, p);
            if e == Side::On {
                return (Side::On, 0);
            }
            let mut inside = e == Side::In;
            for h in holes {
                let s = evenodd(h, p);
                if s == Side::On {
                    return (Side::On, 0);
                }
                if s == Side::In {
                    inside = false;
                }
            }
            if inside {
                cnt += 1;
            }
        }
        (if cnt > 0 { Side::In } else { Side::Out }, cnt)
    }
}

pub fn polywise(mp: &MP, p: P) -> (Side, usize) {
    PolyIndex::new(mp).polywise(p)
}

pub fn dist_point_seg(p: P, s: Seg) -> f64 {
    let (a, b) = s;
    let dx = b.x - a.x;
    let dy = b.y - a.y;
    let l2 = dx * dx + dy * dy;
    let t = if l2 == 0.0 { 0.0 } else { (((p.x - a.x) * dx + (p.y - a.y) * dy) / l2).max(0.0).min(1.0) };
    let qx = a.x + t * dx;
    let qy = a.y + t * dy;
    ((p.x - qx).powi(2) + (p.y - qy).powi(2)).sqrt()
}

pub fn dist(p: P, q: P) -> f64 {
    ((p.x - q.x).powi(2) + (p.y - q.y).powi(2)).sqrt()
}

/// approximate crossing point of the carrier lines, if the segments (slightly widened) meet
pub fn approx_intersection(s1: Seg, s2: Seg) -> Option<P> {
    let (a, b) = s1;
    let (c, d) = s2;
    let va = (b.x - a.x, b.y - a.y);
    let vb = (d.x - c.x, d.y - c.y);
    let k = va.0 * vb.1 - va.1 * vb.0;
    if k == 0.0 {
        return None;
    }
    let e = (c.x - a.x, c.y - a.y);
    let s = (e.0 * vb.1 - e.1 * vb.0) / k;
    let t = (e.0 * va.1 - e.1 * va.0) / k;
    if s < -1e-9 || s > 1.0 + 1e-9 || t < -1e-9 || t > 1.0 + 1e-9 {
        return None;
    }
    Some(pt(a.x + s * va.0, a.y + s * va.1))
}

/// sin of the angle between the two segments' directions (absolute value)
pub fn abs_sin(s1: Seg, s2: Seg) -> f64 {
    let va = (s1.1.x - s1.0.x, s1.1.y - s1.0.y);
    let vb = (s2.1.x - s2.0.x, s2.1.y - s2.0.y);
    let k = va.0 * vb.1 - va.1 * vb.0;
    let la = (va.0 * va.0 + va.1 * va.1).sqrt();
    let lb = (vb.0 * vb.0 + vb.1 * vb.1).sqrt();
    if la == 0.0 || lb == 0.0 {
        0.0
    } else {
        (k / (la * lb)).abs()
    }
}

/// One witness point per trapezoid of the arrangement of `edges` (approximate construction; every witness is
/// classified exactly by the callers). Every face of the arrangement contains a trapezoid, hence a witness.
pub fn witnesses(edges: &[Seg]) -> Vec<P> {
    let mut xs: Vec<f64> = Vec::new();
    for &(a, b) in edges {
        xs.push(a.x);
        xs.push(b.x);
    }
    for i in 0..edges.len() {
        for j in i + 1..edges.len() {
            let (s, t) = (edges[i], edges[j]);
            if s.0.x.max(s.1.x) < t.0.x.min(t.1.x) || t.0.x.max(t.1.x) < s.0.x.min(s.1.x) {
                continue;
            }
            if s.0.y.max(s.1.y) < t.0.y.min(t.1.y) || t.0.y.max(t.1.y) < s.0.y.min(s.1.y) {
                continue;
            }
            if let Some(p) = approx_intersection(s, t) {
                xs.push(p.x);
            }
        }
    }
    xs.sort_by(|a, b| a.partial_cmp(b).unwrap());
    xs.dedup();
    let mut out = Vec::new();
    let mut span = 1.0f64;
    if let (Some(f), Some(l)) = (xs.first(), xs.last()) {
        span = (l - f).abs().max(f.abs()).max(l.abs()).max(f64::MIN_POSITIVE);
    }
    for w in xs.windows(2) {
        let xm = w[0] + (w[1] - w[0]) / 2.0;
        if !(xm > w[0] && xm < w[1]) {
            continue;
        }
        let mut ys: Vec<f64> = Vec::new();
        for &(a, b) in edges {
            let (l, r) = if a.x < b.x { (a, b) } else { (b, a) };
            if l.x < xm && xm < r.x {
                let t = (xm - l.x) / (r.x - l.x);
                ys.push(l.y + t * (r.y - l.y));
            }
        }
        ys.sort_by(|a, b| a.partial_cmp(b).unwrap());
        ys.dedup();
        if ys.is_empty() {
            continue;
        }
        out.push(pt(xm, ys[0] - span));
        out.push(pt(xm, ys[ys.len() - 1] + span));
        for v in ys.windows(2) {
            let ym = v[0] + (v[1] - v[0]) / 2.0;
            if ym > v[0] && ym < v[1] {
                out.push(pt(xm, ym));
            }
        }
    }
    out
}

/// twice the signed area of a ring (shoelace, as given; closing edge added if open)
pub fn ring_area2(ls: &LineString<f64>) -> f64 {
    let p = &ls.0;
    if p.is_empty() {
        return 0.0;
    }
    let mut s = 0.0;
    for i in 0..p.len() - 1 {
        s += p[i].x * p[i + 1].y - p[i + 1].x * p[i].y;
    }
    if p[0] != p[p.len() - 1] {
        let (a, b) = (p[p.len() - 1], p[0]);
        s += a.x * b.y - b.x * a.y;
    }
    s
}

/// twice the area of a multipolygon read polygon-wise (|exterior| - sum |holes|)
pub fn mp_area2(mp: &MP) -> f64 {
    let mut s = 0.0;
    for p in &mp.0 {
        s += ring_area2(p.exterior()).abs();
        for h in p.interiors() {
            s -= ring_area2(h).abs();
        }
    }
    s
}

pub fn mag_of(mps: &[&MP]) -> f64 {
    let mut m = 0.0f64;
    for mp in mps {
        for r in rings_of(mp) {
            for c in &r.0 {
                m = m.max(c.x.abs()).max(c.y.abs());
            }
        }
    }
    m
}

pub fn bbox_of(edges: &[Seg]) -> Option<(f64, f64, f64, f64)> {
    if edges.is_empty() {
        return None;
    }
    let mut b = (f64::INFINITY, f64::INFINITY, f64::NEG_INFINITY, f64::NEG_INFINITY);
    for &(p, q) in edges {
        for c in [p, q] {
            b.0 = b.0.min(c.x);
            b.1 = b.1.min(c.y);
            b.2 = b.2.max(c.x);
            b.3 = b.3.max(c.y);
        }
    }
    Some(b)
}

/// The library's shortcut condition, recomputed by the harness from the operands: boxes strictly disjoint
/// (an operand without edges has an empty box, which is disjoint from everything).
pub fn boxes_disjoint(ea: &[Seg], eb: &[Seg]) -> bool {
    match (bbox_of(ea), bbox_of(eb)) {
        (Some(a), Some(b)) => a.0 > b.2 || b.0 > a.2 || a.1 > b.3 || b.1 > a.3,
        _ => true,
    }
}

/// proper crossing: interiors cross at a single point (exact)
pub fn proper_cross(s: Seg, t: Seg) -> bool {
    let o1 = orient(s.0, s.1, t.0);
    let o2 = orient(s.0, s.1, t.1);
    let o3 = orient(t.0, t.1, s.0);
    let o4 = orient(t.0, t.1, s.1);
    ((o1 > 0.0 && o2 < 0.0) || (o1 < 0.0 && o2 > 0.0)) && ((o3 > 0.0 && o4 < 0.0) || (o3 < 0.0 && o4 > 0.0))
}

/// closed segments share at least one point (exact)
pub fn touches(s: Seg, t: Seg) -> bool {
    if proper_cross(s, t) {
        return true;
    }
    on_seg(s, t.0) || on_seg(s, t.1) || on_seg(t, s.0) || on_seg(t, s.1)
}

/// collinear and overlapping in a segment of positive length (exact)
pub fn collinear_overlap(s: Seg, t: Seg) -> bool {
    if orient(s.0, s.1, t.0) != 0.0 || orient(s.0, s.1, t.1) != 0.0 {
        return false;
    }
    let key = |p: P| if s.0.x != s.1.x { p.x } else { p.y };
    let (a0, a1) = (key(s.0).min(key(s.1)), key(s.0).max(key(s.1)));
    let (b0, b1) = (key(t.0).min(key(t.1)), key(t.0).max(key(t.1)));
    a0.max(b0) < a1.min(b1)
}

/// contact other than at common endpoints: proper crossing, an endpoint strictly inside the other, or a
/// collinear overlap of positive length (exact)
pub fn bad_contact(s: Seg, t: Seg) -> bool {
    if proper_cross(s, t) {
        return true;
    }
    if collinear_overlap(s, t) {
        return true;
    }
    strictly_inside(s, t.0) || strictly_inside(s, t.1) || strictly_inside(t, s.0) || strictly_inside(t, s.1)
}

pub fn same_seg(s: Seg, t: Seg) -> bool {
    (s.0 == t.0 && s.1 == t.1) || (s.0 == t.1 && s.1 == t.0)
}

pub fn map_mp(mp: &MP, f: &dyn Fn(P) -> P) -> MP {
    MultiPolygon(
        mp.0.iter()
            .map(|p| {
                let g = |ls: &LineString<f64>| LineString(ls.0.iter().map(|&c| f(c)).collect::<Vec<_>>());
                Polygon::new(g(p.exterior()), p.interiors().iter().map(g).collect())
            })
            .collect(),
    )
}

/// exact crossing point of two properly crossing segments with integer (or half-integer, `scale`=2) coordinates,
/// as fractions (xn/d, yn/d) over the scaled lattice
pub fn exact_cross_frac(s: Seg, t: Seg, scale: f64) -> Option<(i128, i128, i128)> {
    let f = |p: P| -> Option<(i128, i128)> {
        let (x, y) = (p.x * scale, p.y * scale);
        if x.fract() != 0.0 || y.fract() != 0.0 || x.abs() > 1e15 || y.abs() > 1e15 {
            None
        } else {
            Some((x as i128, y as i128))
        }
    };
    let (p1, p2, p3, p4) = (f(s.0)?, f(s.1)?, f(t.0)?, f(t.1)?);
    let d = (p2.0 - p1.0) * (p4.1 - p3.1) - (p2.1 - p1.1) * (p4.0 - p3.0);
    if d == 0 {
        return None;
    }
    let n = (p3.0 - p1.0) * (p4.1 - p3.1) - (p3.1 - p1.1) * (p4.0 - p3.0);
    let xn = p1.0 * d + n * (p2.0 - p1.0);
    let yn = p1.1 * d + n * (p2.1 - p1.1);
    Some((xn, yn, d))
}

/// value of the fraction n/(d*scale) if it is exactly representable as f64, checked by exact integer arithmetic
pub fn frac_to_f64_exact(n: i128, d: i128, scale: f64) -> Option<f64> {
    let (mut n, mut d) = (n, d);
    if d < 0 {
        n = -n;
        d = -d;
    }
    let v = n as f64 / d as f64 / scale;
    // check exactness: v*scale*d == n in integers. v*scale is dyadic; represent v*scale = m * 2^e
    let w = v * scale;
    if !w.is_finite() {
        return None;
    }
    if w == 0.0 {
        return if n == 0 { Some(0.0) } else { None };
    }
    let bits = w.to_bits();
    let exp = ((bits >> 52) & 0x7ff) as i64;
    let mant = if exp == 0 { (bits & ((1u64 << 52) - 1)) << 1 } else { (bits & ((1u64 << 52) - 1)) | (1u64 << 52) };
    let e = exp - 1075;
    let m = if bits >> 63 == 1 { -(mant as i128) } else { mant as i128 };
    // m * 2^e * d == n ?
    if e >= 0 {
        if e > 60 {
            return None;
        }
        if m.checked_mul(1i128 << e).and_then(|x| x.checked_mul(d)) == Some(n) {
            Some(v)
        } else {
            None
        }
    } else {
        let sh = -e;
        if sh > 120 {
            return None;
        }
        // m * d == n * 2^sh
        match (m.checked_mul(d), n.checked_mul(1i128 << sh.min(100))) {
            (Some(l), Some(r)) if sh <= 100 && l == r => Some(v),
            _ => None,
        }
    }
}
