//! Running one property end to end: pinned inputs, exhaustive spaces, random phase, evidence, exit code.
use crate::gen::Reject;
use crate::props::{self, Spec};
use crate::runner::*;
use crate::ser;
use serde_json::{json, Value};
use std::time::Instant;

pub struct Outcome {
    pub violations: Vec<Violation>,
    pub known_lines: Vec<String>,
    pub stats: Stats,
    pub extra: Value,
}

pub fn seed_from_env() -> u64 {
    std::env::var("VERIF_SEED").ok().and_then(|s| s.trim().parse::<i64>().ok()).map(|v| v as u64).unwrap_or(0)
}

/// pinned regression inputs: corpus/regress/*.json whose "properties" list contains `id`
pub fn pinned_files(sub: &str, id: &str) -> Vec<(String, Value)> {
    let dir = format!("{}/corpus/{}", verif_root(), sub);
    let mut out = Vec::new();
    if let Ok(rd) = std::fs::read_dir(&dir) {
        let mut names: Vec<String> = rd.filter_map(|e| e.ok()).map(|e| e.path().to_string_lossy().to_string()).filter(|p| p.ends_with(".json")).collect();
        names.sort();
        for n in names {
            if let Ok(s) = std::fs::read_to_string(&n) {
                if let Ok(v) = serde_json::from_str::<Value>(&s) {
                    let applies = v.get("properties").and_then(|p| p.as_array()).map(|a| a.iter().any(|x| x.as_str() == Some(id))).unwrap_or(false);
                    if applies {
                        out.push((n, v));
                    }
                }
            }
        }
    }
    out
}

pub fn run_pinned(spec: &Spec, stats: &mut Stats, violations: &mut Vec<Violation>) {
    for (path, v) in pinned_files("regress", spec.id) {
        let desc = match ser::case_from_json(&v) {
            Some(d) => d,
            None => {
                eprintln!("cannot parse pinned input {}", path);
                continue;
            }
        };
        match desc.expand(true) {
            Ok(case) => {
                let mut obs = Obs::default();
                let r = (spec.check)(&case, &mut obs);
                stats.evaluations += 1;
                *stats.counters.entry("pinned_regression_inputs".into()).or_default() += 1;
                if let Err(f) = r {
                    violations.push(Violation { replay: path.clone(), clause: f.clause, detail: f.detail });
                }
            }
            Err(Reject::Invalid(w)) => eprintln!("pinned input {} rejected: {}", path, w),
            Err(Reject::Margin) => eprintln!("pinned input {} rejected (margin)", path),
        }
    }
}

pub fn run_spec(spec: &Spec, seed: u64) -> Outcome {
    let mut stats = Stats::default();
    let mut violations = Vec::new();
    run_pinned(spec, &mut stats, &mut violations);
    for sp in &spec.spaces {
        if !violations.is_empty() {
            break;
        }
        run_indexed(spec.id, sp.label, sp.size, &*sp.make, spec.want_c, &*spec.check, &mut stats, &mut violations, true);
    }
    if violations.is_empty() {
        run_random(spec.id, seed, &spec.families, &*spec.check, &mut stats, &mut violations);
    }
    Outcome { violations, known_lines: vec![], stats, extra: json!({}) }
}

pub fn write_evidence(id: &str, tier: Tier, seed: u64, rule: &str, assumptions: &[&str], out: &Outcome, wall_s: f64, exhaustive: bool) {
    let st = &out.stats;
    let mut coverage = json!({
        "evaluations": st.evaluations,
        "distinct_nontrivial": st.nontrivial.len(),
        "rule": rule,
        "samples": st.samples,
        "classes": st.classes,
        "counters": st.counters,
        "per_family": st.per_family.iter().map(|(k, v)| (k.clone(), json!({"evaluations": v.0, "nontrivial": v.1}))).collect::<serde_json::Map<String, Value>>(),
        "rejected_invalid": st.rejected_invalid,
        "skipped_margin": st.skipped_margin,
        "exhaustive_parts": st.exhaustive_parts,
        "exhaustive": exhaustive,
        "known_findings_reported": out.known_lines,
    });
    if let Some(ex) = &st.rejected_invalid_example {
        coverage["rejected_invalid_example"] = json!(ex);
    }
    if let Value::Object(m) = &out.extra {
        for (k, v) in m {
            coverage[k] = v.clone();
        }
    }
    let ev = json!({
        "property_id": id,
        "tier": tier.name(),
        "seed": seed as i64,
        "level": "exploration",
        "coverage": coverage,
        "assumptions": assumptions,
        "wall_s": wall_s,
        "violations": out.violations.len(),
    });
    let dir = format!("{}/evidence", verif_root());
    let _ = std::fs::create_dir_all(&dir);
    let path = format!("{}/{}.json", dir, id);
    std::fs::write(&path, serde_json::to_string_pretty(&ev).unwrap()).expect("cannot write evidence");
}

/// prints the verdict lines and returns the process exit code
pub fn finish(id: &str, out: &Outcome) -> i32 {
    for l in &out.known_lines {
        println!("KNOWN-FINDING: property={} {}", id, l);
    }
    if out.stats.rejected_invalid > 0 {
        eprintln!("warning: {} generated operands failed the validity self-check (generator bug), e.g. {:?}", out.stats.rejected_invalid, out.stats.rejected_invalid_example);
    }
    if out.violations.is_empty() {
        println!("OK property={} evaluations={} distinct_nontrivial={}", id, out.stats.evaluations, out.stats.nontrivial.len());
        0
    } else {
        for v in out.violations.iter().take(5) {
            println!("VIOLATION property={} replay={}", id, v.replay);
            println!("  clause: {}", v.clause);
            println!("  detail: {}", v.detail);
        }
        1
    }
}

pub fn run_generic(id: &str, tier: Tier) -> i32 {
    let seed = seed_from_env();
    let t0 = Instant::now();
    let spec = match props::spec(id, tier) {
        Some(s) => s,
        None => {
            eprintln!("unknown property {}", id);
            return 2;
        }
    };
    let out = run_spec(&spec, seed);
    write_evidence(id, tier, seed, spec.rule, &spec.assumptions, &out, t0.elapsed().as_secs_f64(), false);
    finish(id, &out)
}

pub fn replay(path: &str) -> i32 {
    let s = match std::fs::read_to_string(path) {
        Ok(s) => s,
        Err(e) => {
            eprintln!("cannot read {}: {}", path, e);
            return 2;
        }
    };
    let v: Value = match serde_json::from_str(&s) {
        Ok(v) => v,
        Err(e) => {
            eprintln!("cannot parse {}: {}", path, e);
            return 2;
        }
    };
    let ids: Vec<String> = match (v.get("property").and_then(|p| p.as_str()), v.get("properties").and_then(|p| p.as_array())) {
        (Some(p), _) => vec![p.to_string()],
        (None, Some(a)) => a.iter().filter_map(|x| x.as_str().map(|s| s.to_string())).collect(),
        _ => vec![],
    };
    let desc = match ser::case_from_json(&v) {
        Some(d) => d,
        None => {
            eprintln!("no case in {}", path);
            return 2;
        }
    };
    let case = match desc.expand(true) {
        Ok(c) => c,
        Err(e) => {
            eprintln!("case rejected: {:?}", e);
            return 2;
        }
    };
    let mut code = 0;
    for id in ids {
        if let Some(spec) = props::spec(&id, Tier::Quick) {
            let mut obs = Obs::default();
            match (spec.check)(&case, &mut obs) {
                Ok(()) => println!("replay {}: property {} holds on this input", path, id),
                Err(f) => {
                    println!("VIOLATION property={} replay={}", id, path);
                    println!("  clause: {}", f.clause);
                    println!("  detail: {}", f.detail);
                    code = 1;
                }
            }
        } else {
            eprintln!("replay: property {} has no generic check", id);
        }
    }
    code
}
