//! Running one property end to end: pinned inputs, exhaustive spaces, random phase, evidence, exit code.
use crate::gen::Reject;
use crate::props::{self, Spec};
use crate::runner::Failure;
use crate::runner::*;
use crate::ser;
use serde_json::{json, Value};
use std::time::Instant;

pub struct Outcome {
    pub violations: Vec<Violation>,
    pub known_lines: Vec<String>,
    pub stats: Stats,
    pub extra: Value,
}

pub fn seed_from_env() -> u64 {
    std::env::var("VERIF_SEED").ok().and_then(|s| s.trim().parse::<i64>().ok()).map(|v| v as u64).unwrap_or(0)
}

/// pinned regression inputs: corpus/regress/*.json whose "properties" list contains `id`
pub fn pinned_files(sub: &str, id: &str) -> Vec<(String, Value)> {
    let dir = format!("{}/corpus/{}", verif_root(), sub);
    let mut out = Vec::new();
    if let Ok(rd) = std::fs::read_dir(&dir) {
        let mut names: Vec<String> = rd.filter_map(|e| e.ok()).map(|e| e.path().to_string_lossy().to_string()).filter(|p| p.ends_with(".json")).collect();
        names.sort();
        for n in names {
            if let Ok(s) = std::fs::read_to_string(&n) {
                if let Ok(v) = serde_json::from_str::<Value>(&s) {
                    let applies = v.get("properties").and_then(|p| p.as_array()).map(|a| a.iter().any(|x| x.as_str() == Some(id))).unwrap_or(false);
                    if applies {
                        out.push((n, v));
                    }
                }
            }
        }
    }
    out
}

pub fn run_pinned(spec: &Spec, stats: &mut Stats, violations: &mut Vec<Violation>) {
    for (path, v) in pinned_files("regress", spec.id) {
        let desc = match ser::case_from_json(&v) {
            Some(d) => d,
            None => {
                eprintln!("cannot parse pinned input {}", path);
                continue;
            }
        };
        match desc.expand(true) {
            Ok(case) => {
                let mut obs = Obs::default();
                let r = (spec.check)(&case, &mut obs);
                stats.evaluations += 1;
                *stats.counters.entry("pinned_regression_inputs".into()).or_default() += 1;
                if let Err(f) = r {
                    violations.push(Violation { replay: path.clone(), clause: f.clause, detail: f.detail });
                }
            }
            Err(Reject::Invalid(w)) => eprintln!("pinned input {} rejected: {}", path, w),
            Err(Reject::Margin) => eprintln!("pinned input {} rejected (margin)", path),
        }
    }
}

pub fn run_spec(spec: &Spec, seed: u64) -> Outcome {
    let mut stats = Stats::default();
    let mut violations = Vec::new();
    run_pinned(spec, &mut stats, &mut violations);
    for sp in &spec.spaces {
        if !violations.is_empty() {
            break;
        }
        run_indexed(spec.id, sp.label, sp.size, &*sp.make, spec.want_c, &*spec.check, &mut stats, &mut violations, true);
    }
    if violations.is_empty() {
        run_random(spec.id, seed, &spec.families, &*spec.check, &mut stats, &mut violations);
    }
    Outcome { violations, known_lines: vec![], stats, extra: json!({}) }
}

pub fn write_evidence(id: &str, tier: Tier, seed: u64, rule: &str, assumptions: &[&str], out: &Outcome, wall_s: f64, exhaustive: bool) {
    let st = &out.stats;
    let mut coverage = json!({
        "evaluations": st.evaluations,
        "distinct_nontrivial": st.nontrivial.len(),
        "rule": rule,
        "samples": st.samples,
        "classes": st.classes,
        "counters": st.counters,
        "per_family": st.per_family.iter().map(|(k, v)| (k.clone(), json!({"evaluations": v.0, "nontrivial": v.1}))).collect::<serde_json::Map<String, Value>>(),
        "rejected_invalid": st.rejected_invalid,
        "skipped_margin": st.skipped_margin,
        "exhaustive_parts": st.exhaustive_parts,
        "exhaustive": exhaustive,
        "known_findings_reported": out.known_lines,
    });
    if let Some(ex) = &st.rejected_invalid_example {
        coverage["rejected_invalid_example"] = json!(ex);
    }
    if let Value::Object(m) = &out.extra {
        for (k, v) in m {
            coverage[k] = v.clone();
        }
    }
    let ev = json!({
        "property_id": id,
        "tier": tier.name(),
        "seed": seed as i64,
        "level": "exploration",
        "coverage": coverage,
        "assumptions": assumptions,
        "wall_s": wall_s,
        "violations": out.violations.len(),
    });
    let dir = format!("{}/evidence", verif_root());
    let _ = std::fs::create_dir_all(&dir);
    let path = format!("{}/{}.json", dir, id);
    std::fs::write(&path, serde_json::to_string_pretty(&ev).unwrap()).expect("cannot write evidence");
}

/// prints the verdict lines and returns the process exit code
pub fn finish(id: &str, out: &Outcome) -> i32 {
    for l in &out.known_lines {
        println!("KNOWN-FINDING: property={} {}", id, l);
    }
    if out.stats.rejected_invalid > 0 {
        eprintln!("warning: {} generated operands failed the validity self-check (generator bug), e.g. {:?}", out.stats.rejected_invalid, out.stats.rejected_invalid_example);
    }
    if out.violations.is_empty() {
        println!("OK property={} evaluations={} distinct_nontrivial={}", id, out.stats.evaluations, out.stats.nontrivial.len());
        0
    } else {
        for v in out.violations.iter().take(5) {
            println!("VIOLATION property={} replay={}", id, v.replay);
            println!("  clause: {}", v.clause);
            println!("  detail: {}", v.detail);
        }
        1
    }
}

/// size and seed of the pinned adversarial corpus of C01 (same in both tiers; NOT derived from VERIF_SEED)
pub const ADV_PINNED_CASES: u64 = 200_000;
pub const ADV_PINNED_SEED: u64 = 0xAD5E_ED01;

/// (maintenance) evaluates the pinned corpus on the current tree and prints the digests of all failing cases
pub fn list_adv_failures(prop: &str) -> i32 {
    use crate::props::robust::{adv_lattice_strategy, adv_replay, eval_adv_prop, Adv};
    let prop: &'static str = match prop {
        "C02" => "C02",
        "C05" => "C05",
        _ => "C01",
    };
    let collected: std::sync::Mutex<Vec<u64>> = std::sync::Mutex::new(Vec::new());
    let mut stats = Stats::default();
    let mut violations = Vec::new();
    {
        let plan = Plan::<Adv> {
            name: "adversarial-pinned",
            cases: ADV_PINNED_CASES,
            strategy: Box::new(adv_lattice_strategy),
            eval: Box::new(|d: &Adv, s: bool| eval_adv_prop(d, prop, s, Some(&collected))),
            replay: Box::new(|d: &Adv, _f: &Failure| adv_replay(d)),
        };
        run_plans(prop, ADV_PINNED_SEED, &[plan], &mut stats, &mut violations);
    }
    let mut v = collected.into_inner().unwrap();
    v.sort();
    v.dedup();
    let out = json!({
        "oracle": prop,
        "what": "K5: digests (case_digest of the operand pair) of the inputs of the pinned adversarial corpus on which the tree at the time of recording fails the oracle of the property named in `oracle` for some operation (C01: wrong region; C02: invalid polygon structure; C05: mutually inconsistent results) or panics with a recorded signature (K1/K2). Inexact-and-degenerate inputs: same root cause as K1-K4. Regenerate only with `verif list-adv-failures <C01|C02|C05>` after a triage.",
        "corpus": {"cases": ADV_PINNED_CASES, "seed": ADV_PINNED_SEED, "evaluated": stats.evaluations},
        "digests": v.iter().map(|d| format!("{:016x}", d)).collect::<Vec<_>>(),
    });
    println!("{}", serde_json::to_string_pretty(&out).unwrap());
    0
}

pub fn run_generic(id: &str, tier: Tier) -> i32 {
    match id {
        "C03" => return run_c03(tier, None),
        "C16" => return run_c16(tier),
        "C17" => return run_c17(tier),
        "C18" => return run_c18(tier),
        _ => {}
    }
    let seed = seed_from_env();
    let t0 = Instant::now();
    let spec = match props::spec(id, tier) {
        Some(s) => s,
        None => {
            eprintln!("unknown property {}", id);
            return 2;
        }
    };
    let mut out = run_spec(&spec, seed);
    if id == "C15" && out.violations.is_empty() {
        use crate::props::stage::{check_star, Star};
        use proptest::prelude::*;
        let plan = Plan::<Star> {
            name: "event-stars",
            cases: tier.pick(20_000, 1_000_000),
            strategy: Box::new(|| ((-50i32..50, -50i32..50), proptest::collection::vec((-4i32..=4, -4i32..=4, any::<bool>()), 2..12)).prop_map(|(centre, spokes)| Star { centre, spokes }).boxed()),
            eval: Box::new(|st: &Star, want: bool| {
                use std::hash::{Hash, Hasher};
                let mut obs = Obs::default();
                let r = crate::exec::guarded(u64::MAX, || check_star(st, &mut obs));
                let result = match r {
                    Ok(r) => r,
                    Err(p) => Err(Failure::new("panic", format!("ordering panicked at {}:{}: {}", p.file, p.line, p.message))),
                };
                let mut h = std::collections::hash_map::DefaultHasher::new();
                format!("{:?}", st).hash(&mut h);
                Eval { obs, result, digest: h.finish(), family: "event-stars", sample: if want { Some(json!({"star": format!("{:?}", st)})) } else { None }, skip: None }
            }),
            replay: Box::new(|st: &Star, _f: &Failure| json!({"kind": "event-star", "centre": [st.centre.0, st.centre.1], "spokes": st.spokes.iter().map(|s| json!([s.0, s.1, s.2])).collect::<Vec<_>>()})),
        };
        run_plans("C15", seed, &[plan], &mut out.stats, &mut out.violations);
        // class-drawn integer segment pairs (T-contacts, common endpoints, collinear; coordinates up to 2^25)
        use crate::props::segpair::{integer_strategy, pair_to_json, SegPair};
        let plan2 = Plan::<SegPair> {
            name: "segment-pair-events",
            cases: tier.pick(60_000, 3_000_000),
            strategy: Box::new(integer_strategy),
            eval: Box::new(|d: &SegPair, want: bool| {
                use std::hash::{Hash, Hasher};
                let mut obs = Obs::default();
                let r = crate::exec::guarded(u64::MAX, || crate::props::stage::check_segpair_order(d, &mut obs));
                let result = match r {
                    Ok(r) => r,
                    Err(p) => Err(Failure::new("panic", format!("ordering panicked at {}:{}: {}", p.file, p.line, p.message))),
                };
                let mut h = std::collections::hash_map::DefaultHasher::new();
                format!("{:?}", d).hash(&mut h);
                Eval { obs, result, digest: h.finish(), family: "segment-pair-events", sample: if want { Some(pair_to_json(d)) } else { None }, skip: None }
            }),
            replay: Box::new(|d: &SegPair, _f: &Failure| {
                let mut v = pair_to_json(d);
                v["kind"] = json!("segment-pair-order");
                v
            }),
        };
        if out.violations.is_empty() {
            run_plans("C15", seed, &[plan2], &mut out.stats, &mut out.violations);
        }
        // float segment pairs in nearly degenerate position (ordering must follow the exact orientation)
        let plan3 = Plan::<SegPair> {
            name: "near-collinear-float-pairs",
            cases: tier.pick(60_000, 3_000_000),
            strategy: Box::new(crate::props::stage::near_collinear_strategy),
            eval: Box::new(|d: &SegPair, want: bool| {
                use std::hash::{Hash, Hasher};
                let mut obs = Obs::default();
                let r = crate::exec::guarded(u64::MAX, || crate::props::stage::check_segpair_order(d, &mut obs));
                let result = match r {
                    Ok(r) => r,
                    Err(p) => Err(Failure::new("panic", format!("ordering panicked at {}:{}: {}", p.file, p.line, p.message))),
                };
                let mut h = std::collections::hash_map::DefaultHasher::new();
                format!("{:?}", d).hash(&mut h);
                Eval { obs, result, digest: h.finish(), family: "near-collinear-float-pairs", sample: if want { Some(pair_to_json(d)) } else { None }, skip: None }
            }),
            replay: Box::new(|d: &SegPair, _f: &Failure| {
                let mut v = pair_to_json(d);
                v["kind"] = json!("segment-pair-order");
                v
            }),
        };
        if out.violations.is_empty() {
            run_plans("C15", seed, &[plan3], &mut out.stats, &mut out.violations);
        }
    }
    if (id == "C01" || id == "C02" || id == "C05") && out.violations.is_empty() {
        // pinned adversarial corpus (fixed seed, independent of VERIF_SEED): the inexact-and-degenerate region as a
        // regression net; the cases the unchanged tree is known to get wrong are listed by digest and not reported
        use crate::props::robust::{adv_known_digests_for, adv_lattice_strategy, adv_replay, eval_adv_prop, Adv};
        let prop: &'static str = match id {
            "C02" => "C02",
            "C05" => "C05",
            _ => "C01",
        };
        let plan = Plan::<Adv> {
            name: "adversarial-pinned",
            cases: ADV_PINNED_CASES,
            strategy: Box::new(adv_lattice_strategy),
            eval: Box::new(move |d: &Adv, s: bool| eval_adv_prop(d, prop, s, None)),
            replay: Box::new(|d: &Adv, _f: &Failure| adv_replay(d)),
        };
        run_plans(prop, ADV_PINNED_SEED, &[plan], &mut out.stats, &mut out.violations);
        let hits = out.stats.counters.get("known_adversarial_corpus_failures").cloned().unwrap_or(0);
        if hits > 0 {
            out.known_lines.push(format!("K5 {} on {} of the {} inputs of the pinned adversarial corpus (small-lattice polygons with arbitrary slopes; seed {}); their digests are listed in corpus/known/adv_{}_digests.json ({} listed)", match prop { "C02" => "invalid polygon structure (or recorded panic K1/K2)", "C05" => "mutually inconsistent results (or recorded panic K1/K2)", _ => "wrong region (or recorded panic K1/K2)" }, hits, ADV_PINNED_CASES, ADV_PINNED_SEED, prop.to_lowercase(), adv_known_digests_for(prop).len()));
        }
    }
    if id == "C12" && out.violations.is_empty() {
        match crate::props::more::c12_recheck() {
            Ok(n) => {
                out.extra["process_level_reference_cases_rechecked_at_end"] = json!(n);
            }
            Err(f) => {
                let p = write_replay_value("C12", 0xC12, json!({"kind": "c12-end-of-run", "note": "needs the whole run as history; re-run the check"}), &f);
                out.violations.push(Violation { replay: p, clause: f.clause, detail: f.detail });
            }
        }
    }
    if id == "C10" && out.violations.is_empty() {
        // "every guarantee above" includes the pairwise intersection step: C16's oracle with the step executed in f32
        use crate::props::segpair::*;
        let plan = |name: &'static str, cases: u64, strat: fn() -> proptest::strategy::BoxedStrategy<SegPair>| Plan::<SegPair> {
            name,
            cases,
            strategy: Box::new(strat),
            eval: Box::new(|d: &SegPair, s: bool| {
                let mut e = eval_pair(d, s);
                e.family = if d.integer { "f32-integer-segment-pairs" } else { "f32-float-segment-pairs" };
                e
            }),
            replay: Box::new(|d: &SegPair, _f: &Failure| pair_to_json(d)),
        };
        let plans = vec![
            plan("f32-integer-segment-pairs", tier.pick(60_000, 3_000_000), || integer_strategy_lim(1024, true)),
            plan("f32-float-segment-pairs", tier.pick(40_000, 2_000_000), || float_strategy(true)),
        ];
        run_plans("C10", seed, &plans, &mut out.stats, &mut out.violations);
        // ... and the orderings (C15) instantiated at f32, on nearly degenerate pairs with mixed magnitudes
        let oplan = Plan::<SegPair> {
            name: "f32-ordering-near-collinear-pairs",
            cases: tier.pick(80_000, 3_000_000),
            strategy: Box::new(crate::props::stage::near_collinear_strategy_f32),
            eval: Box::new(|d: &SegPair, want: bool| {
                use std::hash::{Hash, Hasher};
                let mut obs = Obs::default();
                let r = crate::exec::guarded(u64::MAX, || crate::props::stage::check_segpair_order_f32(d, &mut obs));
                let result = match r {
                    Ok(r) => r,
                    Err(p) => Err(Failure::new("panic", format!("ordering panicked at {}:{}: {}", p.file, p.line, p.message))),
                };
                let mut h = std::collections::hash_map::DefaultHasher::new();
                format!("{:?}", d).hash(&mut h);
                Eval { obs, result, digest: h.finish(), family: "f32-ordering-near-collinear-pairs", sample: if want { Some(pair_to_json(d)) } else { None }, skip: None }
            }),
            replay: Box::new(|d: &SegPair, _f: &Failure| {
                let mut v = pair_to_json(d);
                v["kind"] = json!("segment-pair-order");
                v
            }),
        };
        if out.violations.is_empty() {
            run_plans("C10", seed, &[oplan], &mut out.stats, &mut out.violations);
        }
    }
    let fuzz_inconclusive = add_fuzz(id, tier, seed, &mut out);
    write_evidence(id, tier, seed, spec.rule, &spec.assumptions, &out, t0.elapsed().as_secs_f64(), false);
    let code = finish(id, &out);
    if code == 0 && fuzz_inconclusive {
        println!("INCONCLUSIVE: the coverage-guided campaign did not complete");
        return 2;
    }
    code
}

pub fn replay(path: &str) -> i32 {
    // raw libFuzzer artifacts are named fuzz-<target>-<property>-<kind>-<hash>
    let base = path.rsplit('/').next().unwrap_or("");
    if let Some(rest) = base.strip_prefix("fuzz-") {
        let mut it = rest.split('-');
        if let (Some(target), Some(id)) = (it.next(), it.next()) {
            let data = match std::fs::read(path) {
                Ok(d) => d,
                Err(e) => {
                    eprintln!("cannot read {}: {}", path, e);
                    return 2;
                }
            };
            return match crate::exec::guarded(u64::MAX, || crate::fuzzdec::replay_bytes(target, id, &data)) {
                Ok(Ok(what)) => {
                    println!("replay {}: property {} holds on the decoded input {}", path, id, what.chars().take(300).collect::<String>());
                    0
                }
                Ok(Err((pid, f))) => {
                    println!("VIOLATION property={} replay={}", pid, path);
                    println!("  clause: {}\n  detail: {}", f.clause, f.detail);
                    1
                }
                Err(p) => {
                    println!("VIOLATION property={} replay={}", id, path);
                    println!("  clause: panic\n  detail: panicked at {}:{}: {}", p.file, p.line, p.message);
                    1
                }
            };
        }
    }
    let s = match std::fs::read_to_string(path) {
        Ok(s) => s,
        Err(e) => {
            eprintln!("cannot read {}: {}", path, e);
            return 2;
        }
    };
    let v: Value = match serde_json::from_str(&s) {
        Ok(v) => v,
        Err(e) => {
            eprintln!("cannot parse {}: {}", path, e);
            return 2;
        }
    };
    let _ = &v;
    match v.get("kind").and_then(|k| k.as_str()) {
        Some("splay-history") => {
            let h = match v.get("history").and_then(|h| h.as_str()).and_then(crate::props::splay::history_from_text) {
                Some(h) => h,
                None => {
                    eprintln!("cannot parse history in {}", path);
                    return 2;
                }
            };
            let e = crate::props::splay::eval_history(&h, false);
            return match e.result {
                Ok(()) => {
                    println!("replay {}: property C17 holds on this history", path);
                    0
                }
                Err(f) => {
                    println!("VIOLATION property=C17 replay={}", path);
                    println!("  clause: {}\n  detail: {}", f.clause, f.detail);
                    1
                }
            };
        }
        Some("segment-pair-order") => {
            let d = match crate::props::segpair::pair_from_json(&v) {
                Some(d) => d,
                None => return 2,
            };
            let mut obs = Obs::default();
            let checked = if d.f32 { crate::props::stage::check_segpair_order_f32(&d, &mut obs) } else { crate::props::stage::check_segpair_order(&d, &mut obs) };
            return match checked {
                Ok(()) => {
                    println!("replay {}: property C15 holds on this segment pair", path);
                    0
                }
                Err(f) => {
                    println!("VIOLATION property={} replay={}", v.get("property").and_then(|p| p.as_str()).unwrap_or("C15"), path);
                    println!("  clause: {}\n  detail: {}", f.clause, f.detail);
                    1
                }
            };
        }
        Some("segment-pair") => {
            let d = match crate::props::segpair::pair_from_json(&v) {
                Some(d) => d,
                None => {
                    eprintln!("cannot parse segment pair in {}", path);
                    return 2;
                }
            };
            let pid = v.get("property").and_then(|p| p.as_str()).unwrap_or("C16").to_string();
            let e = crate::props::segpair::eval_pair(&d, false);
            return match e.result {
                Ok(()) => {
                    println!("replay {}: property {} holds on this pair (classes {:?}, counters {:?})", path, pid, e.obs.classes, e.obs.counters);
                    0
                }
                Err(f) => {
                    println!("VIOLATION property={} replay={}", pid, path);
                    println!("  clause: {}\n  detail: {}", f.clause, f.detail);
                    1
                }
            };
        }
        Some("event-star") => {
            let centre = v.get("centre").and_then(|c| c.as_array()).map(|c| (c[0].as_i64().unwrap_or(0) as i32, c[1].as_i64().unwrap_or(0) as i32)).unwrap_or((0, 0));
            let spokes: Vec<(i32, i32, bool)> = v.get("spokes").and_then(|s| s.as_array()).map(|a| a.iter().filter_map(|s| { let s = s.as_array()?; Some((s[0].as_i64()? as i32, s[1].as_i64()? as i32, s[2].as_bool()?)) }).collect()).unwrap_or_default();
            let mut obs = Obs::default();
            return match crate::props::stage::check_star(&crate::props::stage::Star { centre, spokes }, &mut obs) {
                Ok(()) => {
                    println!("replay {}: property C15 holds on this star", path);
                    0
                }
                Err(f) => {
                    println!("VIOLATION property={} replay={}", v.get("property").and_then(|p| p.as_str()).unwrap_or("C15"), path);
                    println!("  clause: {}\n  detail: {}", f.clause, f.detail);
                    1
                }
            };
        }
        Some("child-scenario") => {
            let id = v.get("property").and_then(|p| p.as_str()).unwrap_or("C18").to_string();
            let sc = v.get("scenario").and_then(|s| s.as_str()).and_then(|s| crate::props::big::Scenario::from_args(&s.split_whitespace().map(|x| x.to_string()).collect::<Vec<_>>()));
            let sc = match sc {
                Some(s) => s,
                None => {
                    eprintln!("cannot parse scenario in {}", path);
                    return 2;
                }
            };
            let (r, _) = crate::props::big::run_child(&sc, std::time::Duration::from_secs(900));
            return match judge_scenario(&sc, &r) {
                Ok(_) => {
                    println!("replay {}: scenario `{}` completed: {:?}", path, sc.text(), r);
                    if matches!(r, crate::props::big::ChildResult::Timeout) { 2 } else { 0 }
                }
                Err(f) => {
                    println!("VIOLATION property={} replay={}", id, path);
                    println!("  clause: {}\n  detail: {}", f.clause, f.detail);
                    1
                }
            };
        }
        _ => {}
    }
    if v.get("kind").and_then(|k| k.as_str()) == Some("c03-case") || v.get("property").and_then(|k| k.as_str()) == Some("C03") || v.get("known_id").is_some() {
        let desc = match ser::case_from_json(&v) {
            Some(d) => d,
            None => {
                eprintln!("no case in {}", path);
                return 2;
            }
        };
        let case = desc.expand(false).expect("raw case");
        let fails = crate::props::robust::strict_pair(&case.a, &case.b, &crate::exec::OPS);
        if fails.is_empty() {
            println!("replay {}: all four operations return on this input [{} build]", path, crate::props::robust::build_name());
            return 0;
        }
        println!("VIOLATION property=C03 replay={}", path);
        for (op, p, sig) in fails {
            println!("  {} panicked at {}:{}: {} (events {}, signature {:?}) [{} build]", crate::exec::op_name(op), p.file, p.line, p.message, p.events, sig, crate::props::robust::build_name());
        }
        return 1;
    }
    let ids: Vec<String> = match (v.get("property").and_then(|p| p.as_str()), v.get("properties").and_then(|p| p.as_array())) {
        (Some(p), _) => vec![p.to_string()],
        (None, Some(a)) => a.iter().filter_map(|x| x.as_str().map(|s| s.to_string())).collect(),
        _ => vec![],
    };
    let desc = match ser::case_from_json(&v) {
        Some(d) => d,
        None => {
            eprintln!("no case in {}", path);
            return 2;
        }
    };
    let case = match desc.expand(true) {
        Ok(c) => c,
        Err(e) => {
            eprintln!("case rejected: {:?}", e);
            return 2;
        }
    };
    let mut code = 0;
    for id in ids {
        if let Some(spec) = props::spec(&id, Tier::Quick) {
            let mut obs = Obs::default();
            match (spec.check)(&case, &mut obs) {
                Ok(()) => println!("replay {}: property {} holds on this input", path, id),
                Err(f) => {
                    println!("VIOLATION property={} replay={}", id, path);
                    println!("  clause: {}", f.clause);
                    println!("  detail: {}", f.detail);
                    code = 1;
                }
            }
        } else {
            eprintln!("replay: property {} has no generic check", id);
        }
    }
    code
}

// ---------------------------------------------------------------------------------------------
// C17

pub fn run_c17(tier: Tier) -> i32 {
    use crate::props::splay;
    let seed = seed_from_env();
    let t0 = Instant::now();
    let mut stats = Stats::default();
    let mut violations = Vec::new();
    let rule = "(1) exhaustive: breadth-first over every splay tree reachable over the key universe {0..K-1} (K=6 quick, 7 thorough; state identity = Debug rendering), from every state every operation (insert/remove/get/find_key/next/prev/contains/get_mut, then min/max/len and the in-order keys) with every key of the universe plus one key below and one above, every consuming iteration direction pattern (full and half consumed, then dropped) and clear; (2) random histories of 1..400 operations on SplayTree<i32,Box<i32>> and SplaySet<i32> with three consistent comparators, compared step by step with BTreeMap, ending in drop / forward / backward / mixed / partial consuming iteration; held references re-read after further lookups and compared by address; every history is run a second time with keys (key, tag) ordered by key only, where each key handed out must carry the tag of the insertion that created the entry (a sorted map does not replace the key it holds). Non-trivial history: contains the removal of a key with both neighbours present (node with two children at the root), a miss after lookups restructured a non-empty tree, or a mixed-direction iteration over >= 3 elements. Distinct: hash of the history.";
    // pinned regression histories
    for (path, v) in pinned_files("regress", "C17") {
        if let Some(h) = v.get("history").and_then(|h| h.as_str()).and_then(splay::history_from_text) {
            let e = splay::eval_history(&h, false);
            stats.evaluations += 1;
            if let Err(f) = e.result {
                violations.push(Violation { replay: path, clause: f.clause, detail: f.detail });
            }
        }
    }
    let k = tier.pick(6, 7) as i32;
    let ex = crate::exec::guarded(u64::MAX, || splay::explore(k));
    let mut extra = json!({});
    match ex {
        Ok(ex) => {
            stats.evaluations += ex.transitions + ex.iterations;
            extra["exhaustive_exploration"] = json!({"key_universe": k, "states": ex.states, "transitions": ex.transitions, "consuming_iterations": ex.iterations, "max_height": ex.max_height, "complete": ex.failure.is_none(), "sample_states": ex.sample_states});
            stats.exhaustive_parts.push(json!({"space": format!("all splay trees reachable over keys 0..{}", k), "size": ex.states, "complete": ex.failure.is_none()}));
            // every explored state is a distinct non-trivial case of the exhaustive part
            for i in 0..ex.states {
                stats.nontrivial.insert(0xE000_0000_0000_0000 | i);
            }
            if let Some((f, path)) = ex.failure {
                let p = write_replay_value("C17", 0xE17, json!({"kind": "splay-small-path", "path": path}), &f);
                violations.push(Violation { replay: p, clause: f.clause, detail: f.detail });
            }
        }
        Err(p) => {
            let f = Failure::new("panic", format!("exhaustive exploration panicked at {}:{}: {}", p.file, p.line, p.message));
            let path = write_replay_value("C17", 0xE17, json!({"kind": "splay-small-path", "path": "(panic during exploration)"}), &f);
            violations.push(Violation { replay: path, clause: f.clause, detail: f.detail });
        }
    }
    if violations.is_empty() {
        let mk = |name: &'static str, cases: u64, max_ops: usize| Plan::<splay::History> {
            name,
            cases,
            strategy: Box::new(move || splay::history_strategy(max_ops)),
            eval: Box::new(|h: &splay::History, s: bool| splay::eval_history(h, s)),
            replay: Box::new(|h: &splay::History, _f: &Failure| splay::history_to_json(h)),
        };
        let plans = vec![mk("short-histories", tier.pick(48_000, 2_000_000), 40), mk("long-histories", tier.pick(12_000, 400_000), 400)];
        run_plans("C17", seed, &plans, &mut stats, &mut violations);
    }
    let mut out = Outcome { violations, known_lines: vec![], stats, extra };
    let fuzz_inconclusive = add_fuzz("C17", tier, seed, &mut out);
    write_evidence("C17", tier, seed, rule, &["BTreeMap of the standard library is the reference model", "comparators are consistent total orders (natural, reversed, (k mod 7, k))", "the Debug rendering of SplayTree is used to read the tree shape (in-order keys, height)"], &out, t0.elapsed().as_secs_f64(), false);
    let code = finish("C17", &out);
    if code == 0 && fuzz_inconclusive {
        println!("INCONCLUSIVE: the coverage-guided campaign did not complete");
        return 2;
    }
    code
}

// ---------------------------------------------------------------------------------------------
// C18

pub fn c18_scenarios(tier: Tier, seed: u64) -> Vec<crate::props::big::Scenario> {
    use crate::props::big::*;
    let mut v = Vec::new();
    // fixed backbone: every teardown/consumption action on a monotone chain, both stacks
    let big = tier.pick(1_000_000, 3_000_000);
    // (alternating iteration over a chain takes quadratic time in this implementation, which is not what C18 is
    // about: its size is capped)
    let cap = |action: usize, size: u64| if ACTIONS[action] == "iter-alternating" { size.min(20_000) } else { size };
    for (i, _) in ACTIONS.iter().enumerate() {
        v.push(Scenario::Splay { order: i % 2, size: cap(i, big), action: i, stack_mib: if i % 3 == 0 { 2 } else { 8 }, salt: seed, fold: 0 });
        v.push(Scenario::Splay { order: (i + 1) % 2, size: cap(i, big), action: i, stack_mib: if i % 3 == 0 { 8 } else { 2 }, salt: seed, fold: 0 });
        // the same teardown / consumption on a chain that a lookup has folded (far end brought to the root)
        v.push(Scenario::Splay { order: i % 2, size: cap(i, big), action: i, stack_mib: 2, salt: seed, fold: 1 + (i % 2) });
        v.push(Scenario::Splay { order: (i + 1) % 2, size: cap(i, big), action: i, stack_mib: 2, salt: seed, fold: 1 + (i % 2) });
    }
    // generated scenarios: order x log-uniform size x action x stack from a splitmix stream of the seed
    let mut s = seed ^ 0xC18C_18C1_8C18_C18C;
    let mut next = move || {
        s = s.wrapping_add(0x9e37_79b9_7f4a_7c15);
        let mut z = s;
        z = (z ^ (z >> 30)).wrapping_mul(0xbf58_476d_1ce4_e5b9);
        z = (z ^ (z >> 27)).wrapping_mul(0x94d0_49bb_1331_11eb);
        z ^ (z >> 31)
    };
    let n_gen = tier.pick(15, 1500);
    for _ in 0..n_gen {
        let order = (next() % ORDERS.len() as u64) as usize;
        let lo = 1_000f64.ln();
        let hi = (big as f64).ln();
        let size = (lo + (hi - lo) * (next() % 10_000) as f64 / 10_000.0).exp() as u64;
        let action = (next() % ACTIONS.len() as u64) as usize;
        let stack_mib = if next() % 2 == 0 { 8 } else { 2 };
        let fold = (next() % FOLDS.len() as u64) as usize;
        v.push(Scenario::Splay { order, size: cap(action, size), action, stack_mib, salt: next(), fold });
    }
    // Boolean operations with a heavily populated sweep line
    let nb = tier.pick(250_000, 250_000);
    for corner in 0..4 {
        v.push(Scenario::Bool { shape: 0, n: nb, corner, op: 0, stack_mib: 8 });
    }
    v.push(Scenario::Bool { shape: 0, n: nb, corner: 0, op: 2, stack_mib: 8 });
    v.push(Scenario::Bool { shape: 0, n: nb / 2, corner: 0, op: 0, stack_mib: 2 });
    v.push(Scenario::Bool { shape: 0, n: nb / 2, corner: 1, op: 2, stack_mib: 2 });
    if tier == Tier::Thorough {
        for op in 0..4 {
            for corner in 0..4 {
                v.push(Scenario::Bool { shape: 0, n: 100_000, corner, op, stack_mib: 8 });
            }
            v.push(Scenario::Bool { shape: 1, n: 200_000, corner: op, op, stack_mib: 8 });
            v.push(Scenario::Bool { shape: 2, n: 100_000, corner: op, op, stack_mib: 8 });
        }
    }
    v
}

/// judge one child result; Ok(nontrivial) or Err(failure)
pub fn judge_scenario(sc: &crate::props::big::Scenario, res: &crate::props::big::ChildResult) -> Result<bool, Failure> {
    use crate::props::big::*;
    let m = match res {
        ChildResult::Ok(m) => m,
        ChildResult::Died(why) => return Err(Failure::new("child-died", format!("scenario `{}`: the process did not complete: {}", sc.text(), why))),
        ChildResult::Timeout => return Ok(false),
    };
    let g = |k: &str| m.get(k).cloned().unwrap_or(-1);
    match sc {
        Scenario::Splay { size, action, .. } => {
            let n = *size as i64;
            let (want_count, want_sum): (Option<i64>, Option<i64>) = match ACTIONS[*action] {
                "drop" => (None, None),
                "clear" => (Some(0), None),
                "iter-forward" | "iter-backward" | "iter-alternating" => (Some(n), Some(n * (n - 1) / 2)),
                "iter-partial-drop" => (Some(4.min(n)), if n > 4 { Some(0 + 1 + 2 + n - 1) } else { None }),
                "iter-untouched-drop" => (Some(n), None),
                "iter-front-drop" => (Some(1000.min(n)), if n >= 1000 { Some(999 * 1000 / 2) } else { None }),
                "iter-back-drop" => (Some(1000.min(n)), if n >= 1000 { Some((0..1000).map(|i| n - 1 - i).sum()) } else { None }),
                "lookups" => (None, Some(n)),
                _ => (Some(n), Some(0)),
            };
            if g("n") != n || want_count.map(|c| c != g("count")).unwrap_or(false) || want_sum.map(|c| c != g("checksum")).unwrap_or(false) {
                return Err(Failure::new("child-wrong-answer", format!("scenario `{}` reported {:?}, expected n={} count={:?} checksum={:?}", sc.text(), m, n, want_count, want_sum)));
            }
            Ok(n >= 100_000 && g("height") >= 100_000)
        }
        Scenario::Bool { shape, n, op, .. } => {
            if SHAPES[*shape] == "lattice" {
                // n x n crossings: intersection = n^2 squares, difference = n * (n+1) pieces, union = one polygon with
                // (n-1)^2 holes, xor = 2n(n+1) pieces
                let k = *n as i64;
                let (want_polys, want_rings) = match crate::exec::OPS[*op] {
                    geo_booleanop::boolean::Operation::Intersection => (k * k, k * k),
                    geo_booleanop::boolean::Operation::Difference => (k * (k + 1), k * (k + 1)),
                    geo_booleanop::boolean::Operation::Union => (1, 1 + (k - 1) * (k - 1)),
                    geo_booleanop::boolean::Operation::Xor => (2 * k * (k + 1), 2 * k * (k + 1)),
                };
                if g("polys") != want_polys || g("rings") != want_rings {
                    return Err(Failure::new("child-wrong-answer", format!("scenario `{}` reported {:?}, expected polys={} rings={}", sc.text(), m, want_polys, want_rings)));
                }
                return Ok(g("events") >= 16 * g("edges"));
            }
            if SHAPES[*shape] == "comb" {
                let want = match crate::exec::OPS[*op] {
                    geo_booleanop::boolean::Operation::Intersection => Some(1),
                    geo_booleanop::boolean::Operation::Difference => Some(*n as i64),
                    _ => None,
                };
                if want.map(|w| w != g("polys")).unwrap_or(false) {
                    return Err(Failure::new("child-wrong-answer", format!("scenario `{}` reported {:?}, expected polys={:?}", sc.text(), m, want)));
                }
            }
            if SHAPES[*shape] == "nested" {
                // n/2 annuli; the box cuts a corner of the outermost band only: every annulus stays a polygon with
                // one hole under union and difference, the intersection is one rectangle
                let k = (*n as i64 / 2).max(1);
                let want = match crate::exec::OPS[*op] {
                    geo_booleanop::boolean::Operation::Intersection => Some((1, 1)),
                    geo_booleanop::boolean::Operation::Difference | geo_booleanop::boolean::Operation::Union => Some((k, 2 * k)),
                    geo_booleanop::boolean::Operation::Xor => None,
                };
                if want.map(|w| w != (g("polys"), g("rings"))).unwrap_or(false) || g("events") == 0 {
                    return Err(Failure::new("child-wrong-answer", format!("scenario `{}` reported {:?}, expected (polys, rings)={:?} and a real sweep", sc.text(), m, want)));
                }
            }
            Ok(g("edges") >= 100_000 && g("break_len") >= 10_000)
        }
    }
}

pub fn run_scenarios(id: &str, scenarios: &[crate::props::big::Scenario], parallel: usize, timeout_s: u64, stats: &mut Stats, violations: &mut Vec<Violation>) -> (u64, Vec<Value>) {
    use crate::props::big::*;
    use std::sync::atomic::{AtomicUsize, Ordering};
    use std::sync::Mutex;
    let next = AtomicUsize::new(0);
    let results: Mutex<Vec<(usize, ChildResult, f64)>> = Mutex::new(Vec::new());
    std::thread::scope(|scope| {
        for _ in 0..parallel {
            scope.spawn(|| loop {
                let i = next.fetch_add(1, Ordering::SeqCst);
                if i >= scenarios.len() {
                    break;
                }
                let (r, secs) = run_child(&scenarios[i], std::time::Duration::from_secs(timeout_s));
                results.lock().unwrap().push((i, r, secs));
            });
        }
    });
    let mut res = results.into_inner().unwrap();
    res.sort_by_key(|r| r.0);
    let mut timeouts = 0;
    let mut listing = Vec::new();
    for (i, r, secs) in res {
        let sc = &scenarios[i];
        stats.evaluations += 1;
        let fam_name = match sc { Scenario::Splay { .. } => "splay-scenarios", Scenario::Bool { .. } => "boolean-scenarios" };
        stats.per_family.entry(fam_name.to_string()).or_default().0 += 1;
        match judge_scenario(sc, &r) {
            Ok(nt) => {
                if matches!(r, ChildResult::Timeout) {
                    timeouts += 1;
                }
                if nt {
                    stats.per_family.entry(fam_name.to_string()).or_default().1 += 1;
                    use std::hash::{Hash, Hasher};
                    let mut h = std::collections::hash_map::DefaultHasher::new();
                    sc.text().hash(&mut h);
                    stats.nontrivial.insert(h.finish());
                }
                if let ChildResult::Ok(m) = &r {
                    if listing.len() < 400 {
                        listing.push(json!({"scenario": sc.text(), "nontrivial": nt, "report": m, "seconds": (secs * 100.0).round() / 100.0}));
                    }
                    if stats.samples.len() < 5 && nt {
                        stats.samples.push(json!({"scenario": sc.text(), "report": m}));
                    }
                }
            }
            Err(f) => {
                let p = write_replay_value(id, i as u64, json!({"kind": "child-scenario", "scenario": sc.text()}), &f);
                violations.push(Violation { replay: p, clause: f.clause, detail: f.detail });
            }
        }
    }
    (timeouts, listing)
}

pub fn run_c18(tier: Tier) -> i32 {
    let seed = seed_from_env();
    let t0 = Instant::now();
    let mut stats = Stats::default();
    let mut violations = Vec::new();
    let rule = "scenarios run in child processes of the harness binary, the work being done in a thread with an explicit 8 MiB or 2 MiB stack: (a) splay scenarios = insertion order (ascending, descending, zig-zag, organ-pipe, random) x size (log-uniform in [1e3, 1e6 quick / 3e6 thorough]) x fold (none, or one lookup of the maximum / minimum / middle key / successor of the minimum after building, which splays the far end of the chain to the root) x action (drop, clear, full iteration forward/backward/alternating, partial iteration from both ends then drop, iterator dropped untouched / after 1000 elements from the front / from the back, 1e4 random get/next/prev, remove all ascending/descending); a fixed backbone runs every action on a monotone chain of maximal size; (b) Boolean operations on combs/grids/nested rings with a clipping box at each corner. Oracle: the child exits 0 and reports the expected length/count/checksum (polygon count for comb intersection/difference). Non-trivial: splay scenario with size >= 1e5 whose measured tree height (iterative probe behind the verif-hooks feature) is >= 1e5; Boolean scenario with >= 1e5 edges and >= 1e4 segments in the sweep line when the sweep stopped early.";
    let scenarios = c18_scenarios(tier, seed);
    // pinned regression scenarios
    let mut all = Vec::new();
    for (_, v) in pinned_files("regress", "C18") {
        if let Some(sc) = v.get("scenario").and_then(|s| s.as_str()).and_then(|s| crate::props::big::Scenario::from_args(&s.split_whitespace().map(|x| x.to_string()).collect::<Vec<_>>())) {
            all.push(sc);
        }
    }
    all.extend(scenarios);
    let (timeouts, listing) = run_scenarios("C18", &all, 8, 600, &mut stats, &mut violations);
    let out = Outcome { violations, known_lines: vec![], stats, extra: json!({"scenarios": listing, "watchdog_timeouts": timeouts}) };
    write_evidence("C18", tier, seed, rule, &["stack sizes are set explicitly on the worker thread of the child (8 MiB = the default main-thread limit, 2 MiB = the default for spawned threads)", "a watchdog expiry (600 s) is inconclusive, not a violation"], &out, t0.elapsed().as_secs_f64(), false);
    let code = finish("C18", &out);
    if code == 0 && timeouts > 0 {
        println!("INCONCLUSIVE: {} scenarios hit the watchdog", timeouts);
        return 2;
    }
    code
}

// ---------------------------------------------------------------------------------------------
// C16

pub fn run_c16(tier: Tier) -> i32 {
    use crate::props::segpair::*;
    let seed = seed_from_env();
    let t0 = Instant::now();
    let mut stats = Stats::default();
    let mut violations = Vec::new();
    let mut known_lines = Vec::new();
    let rule = "pairs of segments handed to the public possible_intersection as the sweep does (two left events, operand and in_out flags), in both argument orders: (a) every ordered pair of segments on the 4x4 integer lattice x operand flags x in_out flags (exhaustive), (b) integer pairs below 2^25 drawn by construction class (random, common endpoint, T-contact, collinear apart/touching/partial/contained/equal; vertical and horizontal variants), (c) finite float pairs in f64 and f32 (uniform, near-vertical within a few ulps, near-parallel, scaled by 2^k). Oracle: exact classification by robust orientation tests; effects (pieces, split points, typing, links, return code) per class; i128 rational crossing point as accuracy reference. Non-trivial: any class other than `disjoint`. Distinct: hash of coordinates and flags.";
    let plan = |name: &'static str, cases: u64, strat: fn() -> proptest::strategy::BoxedStrategy<SegPair>| Plan::<SegPair> {
        name,
        cases,
        strategy: Box::new(strat),
        eval: Box::new(|d: &SegPair, s: bool| eval_pair(d, s)),
        replay: Box::new(|d: &SegPair, _f: &Failure| pair_to_json(d)),
    };
    // pinned inputs: regressions strictly; known findings with their signature
    for (path, v) in pinned_files("regress", "C16") {
        if let Some(d) = pair_from_json(&v) {
            stats.evaluations += 1;
            if let Err(f) = eval_pair(&d, false).result {
                violations.push(Violation { replay: path, clause: f.clause, detail: f.detail });
            }
        }
    }
    for (path, v) in pinned_files("known", "C16") {
        if let Some(d) = pair_from_json(&v) {
            stats.evaluations += 1;
            let e = eval_pair(&d, false);
            match e.result {
                Err(f) => violations.push(Violation { replay: path, clause: f.clause, detail: format!("a known-finding input fails with a different signature: {}", f.detail) }),
                Ok(()) => {
                    if e.obs.counters.iter().any(|c| c.0 == "known_signature_hits_N3") {
                        known_lines.push(format!("N3 the pairwise step takes float segments that are collinear only within rounding for overlapping ones and cuts them at points off the segments, here producing a zero-length piece (input {})", path));
                    }
                    if e.obs.counters.iter().any(|c| c.0 == "known_signature_hits_N2") {
                        known_lines.push(format!("N2 divide_segment corner case 1 moves the division point of one of the two segments one ulp to the right, so the two segments are split at different points (input {})", path));
                    }
                }
            }
        }
    }
    if violations.is_empty() {
        let (total, make) = lattice_space(3);
        let p = plan("lattice", total, || unreachable!());
        run_indexed_g("C16", "all ordered segment pairs on the 4x4 lattice x operand flags x in_out flags", total, &*make, &p, &mut stats, &mut violations, true);
    }
    if violations.is_empty() {
        let plans = vec![
            plan("integer-by-class", tier.pick(600_000, 20_000_000), integer_strategy),
            plan("float-f64", tier.pick(300_000, 10_000_000), || float_strategy(false)),
            plan("float-f32", tier.pick(150_000, 5_000_000), || float_strategy(true)),
        ];
        run_plans("C16", seed, &plans, &mut stats, &mut violations);
    }
    let mut out = Outcome { violations, known_lines, stats, extra: json!({}) };
    let fuzz_inconclusive = add_fuzz("C16", tier, seed, &mut out);
    write_evidence("C16", tier, seed, rule, &["integer family: all intermediate products of the library are exact below 2^25, so the classification clauses are demanded exactly", "float family: only containment in both bounding boxes, common split point, link/flag clauses, and detection with a margin of 1e-9*magnitude (f32: 1e-4) are demanded", "float family: when the step returns 2 or 3 (overlap arm) although the segments are not exactly collinear, the outcome is counted under known_signature_hits_N3 (recorded finding) and not judged", "split points that differ with the exact shape of the recorded finding N2 (equal y, x one ulp apart, smaller x = left x of the bumped segment, y below it) are counted under known_signature_hits_N2 and not reported"], &out, t0.elapsed().as_secs_f64(), false);
    let code = finish("C16", &out);
    if code == 0 && fuzz_inconclusive {
        println!("INCONCLUSIVE: the coverage-guided campaign did not complete");
        return 2;
    }
    code
}

// ---------------------------------------------------------------------------------------------
// C03

fn c03_known(stats: &mut Stats, violations: &mut Vec<Violation>, known_lines: &mut Vec<String>) {
    use crate::props::robust::*;
    let relassert = cfg!(debug_assertions);
    for (sub, strict) in [("regress", true), ("known", false)] {
        for (path, v) in pinned_files(sub, "C03") {
            if v.get("kind").and_then(|k| k.as_str()) == Some("child-scenario") {
                continue;
            }
            let desc = match ser::case_from_json(&v) {
                Some(d) => d,
                None => continue,
            };
            let case = match desc.expand(false) {
                Ok(c) => c,
                Err(_) => continue,
            };
            stats.evaluations += 1;
            let fails = strict_pair(&case.a, &case.b, &crate::exec::OPS);
            let id = v.get("known_id").and_then(|k| k.as_str()).unwrap_or("?").to_string();
            let mut reported = false;
            for (op, p, sig) in fails {
                let name = format!("{:?}", sig);
                let accepted = !strict && if relassert { sig != Signature::Other } else { name == id };
                if accepted {
                    if !reported {
                        known_lines.push(format!("{} {} panics at {}:{} ({}) [{} build] on the recorded input {}", id, crate::exec::op_name(op), p.file.rsplit('/').next().unwrap_or(""), p.line, if p.budget_exceeded { "sweep event budget exceeded, unbounded one-ulp walk".to_string() } else { p.message.chars().take(60).collect::<String>() }, build_name(), path));
                        reported = true;
                    }
                } else {
                    violations.push(Violation { replay: path.clone(), clause: if p.budget_exceeded { "event-bound-exceeded".into() } else { "panic".into() }, detail: format!("{} panicked at {}:{}: {} (signature {:?}, recorded finding {})", crate::exec::op_name(op), p.file, p.line, p.message, sig, id) });
                }
            }
        }
    }
}

pub fn c03_big_scenarios(tier: Tier) -> Vec<crate::props::big::Scenario> {
    use crate::props::big::Scenario;
    let mut v = Vec::new();
    let n = tier.pick(250_000, 250_000);
    for shape in 0..3 {
        for corner in 0..4 {
            for op in 0..4 {
                if tier == Tier::Quick && (op + corner + shape) % 2 == 1 {
                    continue;
                }
                v.push(Scenario::Bool { shape, n, corner, op, stack_mib: 8 });
            }
        }
    }
    for size in [1_000u64, 10_000] {
        v.push(Scenario::Bool { shape: 0, n: size, corner: 0, op: 0, stack_mib: 8 });
    }
    // crossing-heavy inputs: K x K bar lattices (events grow with K^2 while the input has 8K edges)
    for (k, op) in [(40u64, 0usize), (40, 1), (40, 2), (40, 3), (150, 0), (tier.pick(150, 400), 1), (tier.pick(100, 300), 3)] {
        v.push(Scenario::Bool { shape: 3, n: k, corner: 0, op, stack_mib: 8 });
    }
    v
}

/// one build's share of C03: pinned inputs, robust-domain cases, edge cases
fn c03_common(tier: Tier, seed: u64, stats: &mut Stats, violations: &mut Vec<Violation>, known_lines: &mut Vec<String>) {
    use crate::props::robust::*;
    c03_known(stats, violations, known_lines);
    let mut ev = Vec::new();
    let (n, nt, samples) = run_edge_cases(&mut ev);
    stats.evaluations += n;
    stats.per_family.insert("edge-cases".into(), (n, nt));
    for i in 0..nt {
        stats.nontrivial.insert(0xED6E_0000_0000_0000 | i);
    }
    stats.samples.extend(samples);
    for (_, f, case) in ev.into_iter().take(3) {
        let p = write_replay_value("C03", stats.evaluations, case, &f);
        violations.push(Violation { replay: p, clause: f.clause, detail: f.detail });
    }
    if violations.is_empty() {
        let families = props::pair_families(tier, 96_000, 4_800_000, true, false, 28);
        let check: Box<CheckFn> = Box::new(c03_case);
        run_random("C03", seed, &families, &*check, stats, violations);
    }
    // (d) adversarial inputs, tolerated-signature mode: K1/K2 in every build, K3/K4 (debug assertions) only where they exist
    if violations.is_empty() {
        let plan = Plan::<Adv> {
            name: "adversarial",
            cases: tier.pick(if cfg!(debug_assertions) { 100_000 } else { 200_000 }, if cfg!(debug_assertions) { 1_000_000 } else { 4_000_000 }),
            strategy: Box::new(adv_strategy),
            eval: Box::new(|d: &Adv, s: bool| eval_adv(d, s)),
            replay: Box::new(|d: &Adv, _f: &Failure| adv_replay(d)),
        };
        run_plans("C03", seed, &[plan], stats, violations);
    }
}

pub fn run_c03(tier: Tier, part_out: Option<&str>) -> i32 {
    use crate::props::robust::*;
    let seed = seed_from_env();
    let t0 = Instant::now();
    let mut stats = Stats::default();
    let mut violations = Vec::new();
    let mut known_lines = Vec::new();
    c03_common(tier, seed, &mut stats, &mut violations, &mut known_lines);
    if let Some(out) = part_out {
        // running as the debug-assertion build's share: report to the parent
        let v = json!({
            "build": build_name(),
            "evaluations": stats.evaluations,
            "distinct_nontrivial": stats.nontrivial.len(),
            "per_family": stats.per_family.iter().map(|(k, v)| (k.clone(), json!({"evaluations": v.0, "nontrivial": v.1}))).collect::<serde_json::Map<String, Value>>(),
            "violations": violations.iter().map(|v| json!({"replay": v.replay, "clause": v.clause, "detail": v.detail})).collect::<Vec<_>>(),
            "known_lines": known_lines,
            "rejected_invalid": stats.rejected_invalid,
        });
        std::fs::write(out, serde_json::to_string(&v).unwrap()).expect("write part");
        return if violations.is_empty() { 0 } else { 1 };
    }
    let rule = "(a) the robust-domain operand pairs of C01 (all 4 operations, one trait pairing, f64 and, when representable, f32), in a release build and in a build with debug assertions and overflow checks: the call must return and the guarded counter of processed sweep events must stay within B(n) = 4n^2+8n+16 (n = input edges); (b) 13 degenerate-but-valid operands (empty multipolygon, empty exterior, empty hole, ring of one repeated point, single-point ring, repeated consecutive vertices, ...) in all ordered pairs x 4 operations x allowed trait pairings x f64/f32, also judged by the membership oracle; (c) large parametric inputs (combs, grids, nested rings with a clipping box at each corner) and crossing-heavy K x K bar lattices (K up to 150 quick / 400 thorough: the number of events grows with K^2 for 8K input edges) in child processes, with the polygon and ring counts checked; (d) adversarial inputs (small-lattice simple polygons with arbitrary slopes, x-squashed float stars in f64 and f32), in both builds, where panics with the exact signature of the recorded findings are tolerated and counted (K1/K2 everywhere, the debug assertions K3/K4 only in the build that has them). Non-trivial: (a) as C01; (b) sweep path taken; (c) >= 1e5 edges and >= 1e4 segments in the sweep line at the early stop, or (lattices) at least 16 events per input edge; (d) bounding boxes overlap.";
    let mut extra = json!({"builds": [build_name()]});
    // the other build
    let exe = std::env::current_exe().expect("exe");
    let other = exe.parent().and_then(|p| p.parent()).map(|p| p.join("relassert").join("verif"));
    let mut inconclusive = false;
    match other {
        Some(o) if o.exists() && !cfg!(debug_assertions) => {
            let outfile = format!("{}/.c03-part.tmp", verif_root());
            let _ = std::fs::remove_file(&outfile);
            let status = std::process::Command::new(&o).args(["part", "C03", tier.name(), &outfile]).status();
            match (status, std::fs::read_to_string(&outfile).ok().and_then(|s| serde_json::from_str::<Value>(&s).ok())) {
                (Ok(_), Some(v)) => {
                    stats.evaluations += v["evaluations"].as_u64().unwrap_or(0);
                    for x in v["violations"].as_array().cloned().unwrap_or_default() {
                        violations.push(Violation { replay: x["replay"].as_str().unwrap_or("").to_string(), clause: x["clause"].as_str().unwrap_or("").to_string(), detail: x["detail"].as_str().unwrap_or("").to_string() });
                    }
                    for l in v["known_lines"].as_array().cloned().unwrap_or_default() {
                        if let Some(l) = l.as_str() {
                            known_lines.push(l.to_string());
                        }
                    }
                    extra["debug_assertion_build"] = v;
                    extra["builds"] = json!([build_name(), "release+debug-assertions+overflow-checks"]);
                }
                _ => {
                    eprintln!("the debug-assertion build of the harness did not report");
                    inconclusive = true;
                }
            }
            let _ = std::fs::remove_file(&outfile);
        }
        _ => {
            eprintln!("debug-assertion build of the harness not found (run ./check build)");
            inconclusive = true;
        }
    }
    // (c) large inputs in child processes
    let mut timeouts = 0;
    if violations.is_empty() {
        let mut scen = Vec::new();
        for (_, v) in pinned_files("regress", "C03") {
            if v.get("kind").and_then(|k| k.as_str()) == Some("child-scenario") {
                if let Some(sc) = v.get("scenario").and_then(|s| s.as_str()).and_then(|s| crate::props::big::Scenario::from_args(&s.split_whitespace().map(|x| x.to_string()).collect::<Vec<_>>())) {
                    scen.push(sc);
                }
            }
        }
        scen.extend(c03_big_scenarios(tier));
        let (t, listing) = run_scenarios("C03", &scen, 6, 600, &mut stats, &mut violations);
        timeouts = t;
        // event bound on the large inputs
        for l in &listing {
            let (e, n) = (l["report"]["events"].as_i64().unwrap_or(0) as u64, l["report"]["edges"].as_i64().unwrap_or(0) as u64);
            if e > crate::exec::event_bound(n) {
                let f = Failure::new("event-bound-exceeded", format!("scenario {}: {} events for {} edges", l["scenario"], e, n));
                let p = write_replay_value("C03", e, json!({"kind": "child-scenario", "scenario": l["scenario"]}), &f);
                violations.push(Violation { replay: p, clause: f.clause, detail: f.detail });
            }
        }
        extra["large_input_scenarios"] = json!(listing);
    }
    let out = Outcome { violations, known_lines, stats, extra };
    write_evidence("C03", tier, seed, rule, &[props::ASSUME_DOMAIN, "the event counter and budget are the feature-guarded hook in subdivide (thread-local); bounded events imply bounded allocation because every processed event creates at most four new events and nothing else allocates in a loop", "a watchdog expiry of a child process is inconclusive (exit 2), never a violation", "adversarial tier: a panic is tolerated only with the exact recorded signature (K1: index usize::MAX at connect_edges.rs; K2: budget exceeded with the last 16 event x-coordinates within 64 ulps)"], &out, t0.elapsed().as_secs_f64(), false);
    let code = finish("C03", &out);
    if code == 0 && (timeouts > 0 || inconclusive) {
        println!("INCONCLUSIVE: {} watchdog expiries; debug-assertion build missing: {}", timeouts, inconclusive);
        return 2;
    }
    code
}

// ---------------------------------------------------------------------------------------------
// coverage-guided campaigns (thorough tiers): libFuzzer through cargo-fuzz, oracle inside the target

pub struct FuzzReport {
    pub json: Value,
    pub crash: Option<(String, String)>,
    pub inconclusive: Option<String>,
}

pub fn fuzz_campaign(id: &str, runs: u64, seed: u64) -> Option<FuzzReport> {
    let target = crate::fuzzdec::target_for(id)?;
    let root = verif_root();
    let corpus = format!("{}/fuzz/corpus-run/{}-{}", root, target, id);
    let _ = std::fs::remove_dir_all(&corpus);
    let _ = std::fs::create_dir_all(&corpus);
    // seed corpus: committed golden inputs for the target, if any
    if let Ok(rd) = std::fs::read_dir(format!("{}/corpus/fuzz/{}", root, target)) {
        for e in rd.flatten() {
            let _ = std::fs::copy(e.path(), format!("{}/{}", corpus, e.file_name().to_string_lossy()));
        }
    }
    let _ = std::fs::create_dir_all(format!("{}/replays", root));
    let prefix = format!("{}/replays/fuzz-{}-{}-", root, target, id);
    let t0 = Instant::now();
    let out = std::process::Command::new("cargo")
        .current_dir(format!("{}/harness", root))
        .env("CARGO_NET_OFFLINE", "true")
        .env("VERIF_FUZZ_PROP", id)
        .args(["+nightly", "fuzz", "run", "--fuzz-dir", &format!("{}/fuzz", root), target, &corpus, "--"])
        .args([format!("-runs={}", runs), format!("-seed={}", (seed % 0xffff_fff0) + 1), "-len_control=0".to_string(), "-max_len=512".to_string(), format!("-artifact_prefix={}", prefix), "-print_final_stats=1".to_string()])
        .output();
    let out = match out {
        Ok(o) => o,
        Err(e) => return Some(FuzzReport { json: json!({"target": target, "error": e.to_string()}), crash: None, inconclusive: Some(format!("cannot start cargo fuzz: {}", e)) }),
    };
    let err = String::from_utf8_lossy(&out.stderr).to_string();
    let grab = |key: &str| -> Option<u64> { err.lines().rev().find_map(|l| l.split(key).nth(1).and_then(|r| r.trim().split_whitespace().next()).and_then(|v| v.parse().ok())) };
    let execs = grab("stat::number_of_executed_units:");
    let cov = err.lines().rev().find_map(|l| l.split("cov: ").nth(1).and_then(|r| r.split_whitespace().next()).and_then(|v| v.parse::<u64>().ok()));
    let corp = err.lines().rev().find_map(|l| l.split("corp: ").nth(1).and_then(|r| r.split('/').next()).and_then(|v| v.trim().parse::<u64>().ok()));
    let mut json = json!({"engine": "libFuzzer via cargo-fuzz (ASan)", "target": target, "selected_property": id, "requested_runs": runs, "executions": execs, "coverage_edges": cov, "corpus_units": corp, "seconds": t0.elapsed().as_secs_f64()});
    let _ = std::fs::remove_dir_all(&corpus);
    if out.status.success() {
        return Some(FuzzReport { json, crash: None, inconclusive: None });
    }
    let artifact = err.lines().find_map(|l| l.split("Test unit written to ").nth(1).map(|s| s.trim().to_string()));
    let msg = err.lines().find(|l| l.contains("VERIF-FUZZ-VIOLATION")).map(|s| s.chars().take(1200).collect::<String>());
    match (artifact, msg) {
        (Some(a), Some(m)) => {
            json["crash"] = json!(m);
            Some(FuzzReport { json, crash: Some((a, m)), inconclusive: None })
        }
        (a, _) => {
            let tail: String = err.lines().rev().take(6).collect::<Vec<_>>().into_iter().rev().collect::<Vec<_>>().join(" | ");
            json["error_tail"] = json!(tail);
            Some(FuzzReport { json, crash: None, inconclusive: Some(format!("fuzz run failed without an oracle violation (artifact {:?}): {}", a, tail)) })
        }
    }
}

/// run the campaign for a thorough tier and fold it into the outcome; returns true if inconclusive
pub fn add_fuzz(id: &str, tier: Tier, seed: u64, out: &mut Outcome) -> bool {
    if tier != Tier::Thorough || !out.violations.is_empty() || std::env::var("VERIF_NO_FUZZ").is_ok() {
        return false;
    }
    let runs: u64 = std::env::var("VERIF_FUZZ_RUNS").ok().and_then(|s| s.parse().ok()).unwrap_or(match id {
        "C16" | "C17" => 2_000_000,
        // fz_stage runs C13-C15's oracles (quadratic in the number of sub-segments) under ASan: about 50 executions/s
        "C13" | "C14" | "C15" => 60_000,
        // fz_bool with one of the law oracles (several extra operations per execution): about 100-200 executions/s
        "C06" | "C07" | "C08" | "C09" => 60_000,
        _ => 300_000,
    });
    match fuzz_campaign(id, runs, seed) {
        None => false,
        Some(rep) => {
            if let Some(n) = rep.json["executions"].as_u64() {
                out.stats.evaluations += n;
                *out.stats.counters.entry("fuzz_executions".into()).or_default() += n;
            }
            out.extra["fuzz"] = rep.json;
            if let Some((artifact, msg)) = rep.crash {
                out.violations.push(Violation { replay: artifact, clause: "fuzz-oracle-violation".into(), detail: msg });
            }
            if let Some(why) = rep.inconclusive {
                eprintln!("fuzz campaign inconclusive: {}", why);
                return true;
            }
            false
        }
    }
}
